#!/venv/bin/python
"""Confirm a seeded change independently and file it under /verif/seeded/<name>/.

usage: confirm_seed.py <seed-dir> <name>      (seed-dir holds patch.diff, demo.py, meta.json)

Steps (all in a scratch git worktree of /repo under /tmp, removed afterwards):
  1. demo.py on the clean tree            -> must exit 0
  2. git apply patch.diff                 -> must apply
  3. full test-suite with PYTHONPATH      -> only the 2 baseline failures allowed
  4. demo.py on the changed tree          -> must exit non-zero
"""
import json
import os
import shutil
import subprocess
import sys
import tempfile
from pathlib import Path

KNOWN_FAIL = {
    "tests/asyncio/test_sanity.py::test_http2_websocket",
    "tests/trio/test_sanity.py::test_http2_websocket",
}


def sh(cmd, cwd=None, env=None, timeout=900):
    p = subprocess.run(cmd, cwd=cwd, env=env, shell=isinstance(cmd, str), capture_output=True, text=True, timeout=timeout)
    return p.returncode, (p.stdout + p.stderr)


def main():
    seed = Path(sys.argv[1]).resolve()
    name = sys.argv[2]
    wt = Path(tempfile.mkdtemp(prefix="confirm.", dir="/tmp")) / "wt"
    rc, out = sh(["git", "-C", "/repo", "worktree", "add", "-q", "--detach", str(wt), "HEAD"])
    assert rc == 0, out
    result = {"name": name, "head": sh(["git", "-C", "/repo", "rev-parse", "HEAD"])[1].strip()}
    try:
        env = dict(os.environ, PYTHONPATH=str(wt / "src"), PYTHONDONTWRITEBYTECODE="1")
        demo = seed / "demo.py"
        rc0, out0 = sh(["/venv/bin/python", str(demo)], cwd=str(wt), env=env, timeout=180)
        result["demo_clean_rc"] = rc0
        result["demo_clean_tail"] = out0.strip().splitlines()[-1:] if out0.strip() else []
        rc, out = sh(["git", "apply", str(seed / "patch.diff")], cwd=str(wt))
        result["applies"] = rc == 0
        if rc != 0:
            result["apply_error"] = out[-400:]
        else:
            rct, outt = sh(
                ["/venv/bin/python", "-m", "pytest", "-q", "-p", "no:cacheprovider", "--timeout=900", "-q", "-x",
                 "--deselect", "tests/asyncio/test_sanity.py::test_http2_websocket",
                 "--deselect", "tests/trio/test_sanity.py::test_http2_websocket", "-n", "4"],
                cwd=str(wt), env=env, timeout=1200)
            result["tests_rc"] = rct
            result["tests_tail"] = outt.strip().splitlines()[-2:]
            runs = []
            for _ in range(4):  # schedule-dependent demos: a failure in any of up to 4 runs counts
                rc1, out1 = sh(["/venv/bin/python", str(demo)], cwd=str(wt), env=env, timeout=180)
                runs.append(rc1)
                if rc1 != 0:
                    break
            result["demo_changed_runs"] = runs
            result["demo_changed_rc"] = rc1
            result["demo_changed_tail"] = [l[:300] for l in out1.strip().splitlines()[-2:]]
        ok = result.get("applies") and rc0 == 0 and result.get("tests_rc") == 0 and result.get("demo_changed_rc", 0) != 0
        result["confirmed"] = bool(ok)
    finally:
        sh(["git", "-C", "/repo", "worktree", "remove", "--force", str(wt)])
        shutil.rmtree(wt.parent, ignore_errors=True)
    print(json.dumps(result, indent=1))
    if result["confirmed"]:
        dest = Path("/verif/seeded") / name
        dest.mkdir(parents=True, exist_ok=True)
        shutil.copy(seed / "patch.diff", dest / "patch.diff")
        shutil.copy(seed / "demo.py", dest / "demo.py")
        meta = {}
        try:
            meta = json.loads((seed / "meta.json").read_text())
        except Exception:
            pass
        meta["confirmation"] = {
            "at_repo_head": result["head"],
            "ran": [
                "demo.py on clean worktree (exit 0)",
                "git apply patch.diff",
                "pytest -q -x (2 baseline failures deselected) with PYTHONPATH=<worktree>/src: exit 0",
                f"demo.py on changed worktree (exit {result.get('demo_changed_rc')})",
            ],
            "demo_changed_tail": result.get("demo_changed_tail"),
        }
        (dest / "meta.json").write_text(json.dumps(meta, indent=1) + "\n")
    return 0 if result["confirmed"] else 1


if __name__ == "__main__":
    sys.exit(main())
