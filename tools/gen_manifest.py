#!/venv/bin/python
"""Regenerate /verif/MANIFEST.json from the table below (kept valid at every commit)."""
import json
import os
from pathlib import Path

VERIF = Path(__file__).resolve().parent.parent
PROPS = [json.loads(l)["id"] for l in (VERIF / "properties.jsonl").read_text().splitlines() if l.strip()]

COMMON_NOTE = (
    "Trusted base: CPython's ast parser, the checker's own CFG/provenance/abstract-interpretation code, and the "
    "frozen oracle tables in hcverif/rules (each row justified in DESIGN.md). Decides structural necessary "
    "conditions of the property on every path/site of the current source; does NOT decide: "
)

# property -> (technique, claim text, not-decided note, design section)
CLAIMED = {
    "C09": (
        "ast dataflow (provenance of the DATA payload and its length), per-function CFG must-pass-through (unblock->wake-up, pop->block, end_stream->cleanup, mutate->flush), exhaustiveness of the h2 event dispatch, finite decision table of _window_updated",
        "Every send site, unblock site, h2-mutating call and event arm of H2Protocol/StreamBuffer is enumerated from the current source and checked on all CFG paths: DATA length = max(0, min(stream window, frame size)); nothing-sent => stream blocked; unblock => send task woken; wait/clear/re-check discipline of the send task; END_STREAM only when complete and followed by cleanup; all eight h2 events dispatched, stream-0 and SETTINGS window changes unblock all streams; received DATA acknowledged; produced bytes flushed. These are necessary conditions: breaking any one breaks flow-control compliance or liveness for some frame sequence.",
        "delivery order/completeness under arbitrary task interleavings, priority-tree fairness, h2's own window accounting.",
        "5/C09",
    ),
    "C19": (
        "ast model of argparse declarations and sentinel-guarded copy statements (wiring table), provenance of loader return values, truth-table comparison of header emission guards, branch-structure rules for bind parsing",
        "All CLI flags (every add_argument call) and all `config.Y = args.Z` statements are modelled from the source; each flag must set exactly its own setting from its own argument under a sentinel test whose default really is the sentinel; list flags append/copy-if-non-empty; the three loaders funnel into from_mapping which setattr()s every key; bind/root_path setters normalise; response_headers emits date/server/alt-svc exactly under their switches (truth table) in order; _create_sockets has the unix/fd/host:port branch structure. A crossed, dropped or always-true wiring is a violation for every value of that flag, which the test-suite (one literal per flag) cannot see.",
        "the sockets the OS produces for arbitrary bind strings, tomllib/importlib/argparse behaviour, value-level date formatting.",
        "5/C19",
    ),
}


def main() -> None:
    checks = []
    for pid in PROPS:
        if pid not in CLAIMED:
            continue
        tech, text, notdec, ref = CLAIMED[pid]
        checks.append(
            {
                "property_id": pid,
                "quick_cmd": f"./check {pid} --tier quick",
                "thorough_cmd": f"./check {pid} --tier thorough",
                "evidence_file": f"/verif/evidence/{pid}.json",
                "replay_cmd_template": f"./check {pid} --replay {{path}}",
                "engine": "hcverif",
                "level_claimed": {"category": "other", "text": text, "design_ref": f"DESIGN.md section {ref}"},
                "level_note": COMMON_NOTE + notdec,
                "technique": "static analysis: " + tech,
            }
        )
    na_path = VERIF / "tools" / "not_applicable.json"
    na_reasons = json.loads(na_path.read_text()) if na_path.exists() else {}
    na = [
        {"property_id": pid, "reason": na_reasons.get(pid, "check not implemented yet (implementation in progress, see DESIGN.md section 11)")}
        for pid in PROPS
        if pid not in CLAIMED
    ]
    manifest = {
        "version": 1,
        "setup_cmd": "true",
        "hooks": {
            "guard": "HYPERCORN_VERIF",
            "enable": "no hooks: every check parses /repo/src/hypercorn with python's ast on each run; nothing in /repo is built, imported or instrumented",
            "baseline_off_cmd": "cd /repo && /venv/bin/python -m pytest -ra -q -p no:cacheprovider --timeout=900 --continue-on-collection-errors",
            "source_commits": [],
            "add_only": True,
        },
        "engines": [
            {
                "name": "hcverif",
                "path": "/verif/hcverif",
                "serves_properties": [c["property_id"] for c in checks],
                "kind_free_text": "repository-specific static analyser over python ast: repo model + resolver, statement CFG with exceptional edges and finally-copying, must-pass-through/dominance, flow-insensitive provenance, finite predicate tables, exception-escape analysis, typestate abstract interpretation of the stream classes, asyncio/trio sibling cross-check",
            }
        ],
        "checks": checks,
        "notes": "Static analysis only: no check runs hypercorn, its tests or a solver. Exit 0 = all rule instances discharged (KNOWN-FINDING lines for defects listed in known_findings.json); exit 1 + VIOLATION line = an unlisted violation; exit 2 + ANALYSIS-ERROR = anchor vanished / unsupported construct (never a silent pass).",
        "not_applicable": na,
    }
    (VERIF / "MANIFEST.json").write_text(json.dumps(manifest, indent=1) + "\n")
    print(f"MANIFEST: {len(checks)} checks, {len(na)} not_applicable")


if __name__ == "__main__":
    main()
