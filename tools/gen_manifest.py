#!/venv/bin/python
"""Regenerate /verif/MANIFEST.json from the table below (kept valid at every commit)."""
import json
import os
from pathlib import Path

VERIF = Path(__file__).resolve().parent.parent
PROPS = [json.loads(l)["id"] for l in (VERIF / "properties.jsonl").read_text().splitlines() if l.strip()]

COMMON_NOTE = (
    "Trusted base: CPython's ast parser, the checker's own CFG/provenance/abstract-interpretation code, and the "
    "frozen oracle tables in hcverif/rules (each row justified in DESIGN.md). Decides structural necessary "
    "conditions of the property on every path/site of the current source; does NOT decide: "
)

# property -> (technique, claim text, not-decided note, design section)
CLAIMED = {
    "C01": (
        "provenance (def-use) tables for the Request event and the ASGI scope, event->message mapping table, call-site count of spawn_app, sequential-delivery (await, no spawn) rule, predicate table of filter_pseudo_headers / valid_server_name, shared CFG rules for DATA acknowledgement and pipelined-reader release",
        "Every field of the Request event (h11 and h2 construction sites) and every scope key of both stream classes is traced back to its source term; Body/EndBody producers and the http.request messages they become are enumerated; spawn_app has one awaited call site per stream class; header filtering and server-name matching are evaluated as decision tables over sample header names. A crossed/dropped field, a wrong more_body constant, a spawned delivery, a missing acknowledgement or a case-sensitive host match is wrong for every request of that shape, whatever the segmentation.",
        "byte equality under every framing/segmentation (h11/h2 incremental parsers), unquote semantics, timing between reads and application progress.",
        "5/C01",
    ),
    "C02": (
        "exhaustive evaluation of suppress_body over 3 methods x 500 statuses, guard/provenance rules on every Body/Trailers/Response emission, header-sequence normaliser (chain/+/list) compared with the required order, one-to-one event->library-operation table, shared C09 flow rules, typestate emission grammar",
        "The body-omission predicate is evaluated on its whole domain; each emission site must be guarded by it with the request method and response status; the header sequence handed to h11/h2 is application headers then server headers; trailers only under the version and te guards; 1xx vs final split; status/headers/body provenance from the ASGI message. HTTP/2 trailers without END_STREAM (h2 refuses them) is reported as known finding F-31.",
        "that h11/h2 serialise those events into bytes a client parses back identically; framing choices inside h11; byte-level flow control.",
        "5/C02",
    ),
    "C03": (
        "typestate abstract interpretation of HTTPStream/WSStream over the python ast (finite abstract store, all input words, ghost counters for disconnect/access/emissions), ordering rule (closed set before the first await), table-removal rules for both protocols, guard rules for post-close no-ops, shared write-path rules",
        "All reachable abstract stores of both stream classes are explored under every protocol event and every ASGI message (about 250 stores, 9000 transitions per run): at most one disconnect and one access record on every word, exactly one at quiescence, nothing delivered after the disconnect, post-close sends are no-ops; plus structural rules that the StreamClosed arms mark the stream closed before their first await and that both protocols unregister a stream when closing it. Known findings F-02, F-03, F-18, F-36, F-37 are reported as such.",
        "interleavings in which a handle() suspended at an await resumes after another task closed the stream; queue-full suspension; behaviour inside h11/h2/wsproto.",
        "5/C03",
    ),
    "C04": (
        "context-sensitive inter-procedural exception-escape analysis (primitive raiser tables: explicit raises, strict decodes, peer-keyed lookups, possibly-unbound locals via CFG dominance, library raisers frozen from the installed sources; handlers filtered with the real class hierarchy), library signature conformance via inspect.signature, error-path shape rules",
        "For eight task roots (connection handler of both workers, HTTP/2 send task, idle timers, ping task, transport write path, application-exit path) the set of exception classes that can escape is computed over the resolved call graph with calling contexts (event class / None arguments); on the current tree exactly the thirteen known escapes F-06..F-12 remain. Every call into h11/h2/wsproto/priority is bound against the installed signature (F-11: RequestReceived() cannot be constructed).",
        "exceptions raised inside the libraries for reasons absent from the raiser tables; resource exhaustion; HTTP/3.",
        "5/C04",
    ),
    "C16": (
        "sibling cross-check: every asyncio/trio method pair is matched against one abstract effect skeleton (per-runtime call pattern, arguments, guards, handler classes, lock/timeout context, order) with a census of unclaimed effectful calls; twin-equality of normalised ASTs for functions that must be identical",
        "17 method pairs (TCPServer.run/protocol_send/_read_data/_close/_idle_timeout/_initiate_server_close, _handle, spawn_app, SingleTask.restart/stop, Lifespan.handle_lifespan/wait_for_*) must realise the same skeleton; 6 functions must be equal after renaming the runtime module. An effect added, dropped, reordered, re-guarded or re-parameterised on one worker only is reported with the step it breaks; the nine accepted divergences are the single-sided steps, each with its reason.",
        "equivalence of the two runtimes' scheduling/cancellation semantics, timing; a consistent change to BOTH workers requires a skeleton update.",
        "5/C16",
    ),
    "C05": (
        "CFG must-pass-through with exceptional edges (every exit of _handle passes send(None)), handler-shape rules, call-graph reachability of reset_stream from the StreamClosed arm, h2 configuration rule, typestate rules for the app_send(None) arms",
        "Both task-group wrappers are checked on all normal, exceptional and cancellation exits; application errors are logged and contained; the wrapper is spawned with the stream's own send/receive; h2 keeps outbound header normalisation on (the server's 500 carries connection: close). The missing RST_STREAM on abort is reported as known finding F-15.",
        "what bytes the client sees and when; that sibling streams keep working beyond 'nothing escapes into the shared task group' (C04).",
        "5/C05",
    ),
    "C06": (
        "truth-table comparison of the recycle guard, CFG dominance/must-pass-through in _maybe_recycle and _close_stream, evaluation of the keep-alive comparison at boundary values, attribute-write census for self.stream and the request counter, non-yielding-await rule for EventWrapper.clear",
        "Recycling happens exactly when not terminated and both h11 sides are DONE and every path ends recycled or closed; connection: close is announced exactly at requests >= max with a +1-per-stream counter; the paused reader parks with clear();wait() and is released on both paths only after the old stream was torn down; body events go only to the single current stream; server-generated error responses announce close.",
        "that h11 never yields events of request N+1 before start_next_cycle; byte boundaries inside reads; h11's own Connection/HTTP/1.0 state tracking.",
        "5/C06",
    ),
    "C07": (
        "CFG must-pass-through and dominance over the idle-signalling sites (every stream removal is followed by Updated computed after the removal), terminal-release rules for parked tasks, finally-coverage of the task group, idle-timer shape rules per worker, evaluated idle predicates",
        "All sites that remove an HTTP/2 stream or recycle an HTTP/1 connection are enumerated and must announce idleness afterwards; the timer waits for `terminated` at most keep_alive_timeout and then always closes; Updated events start/stop the timer; the transport is closed in a finally covering the task group; read loops report Closed on every exit. Known findings: F-19 (parked pipelined reader never released), F-20 (handler lingers keep_alive_timeout after EOF, both workers).",
        "expiry instants, behaviour under virtual time, that busy connections are never closed by the timer under every interleaving.",
        "5/C07",
    ),
    "C08": (
        "evaluation of the high/low-water guards as functions of len(buffer), CFG ordering rules in StreamBuffer.push/pop/close, terminal-release reachability (Closed, RST_STREAM, h2 errors -> StreamBuffer.close), lock/await rules for transport writes, await census of every send callback, shared C09 wake-up rules",
        "The sender blocks exactly at len(buffer) >= BUFFER_HIGH_WATER (a positive module constant) and is released only by rules over the remaining data or by close(); connection close, stream reset and h2 stream errors all reach StreamBuffer.close; transport writes are written+drained under the send lock and failures reported as Closed; every protocol/stream send is awaited. Known finding F-21: release is keyed on the popped chunk, so the buffer is unbounded at a closed window.",
        "the numeric bound itself, fairness between streams, promptness; asyncio drain / trio send_all semantics.",
        "5/C08",
    ),
    "C09": (
        "ast dataflow (provenance of the DATA payload and its length), per-function CFG must-pass-through (unblock->wake-up, pop->block, end_stream->cleanup, mutate->flush), exhaustiveness of the h2 event dispatch, finite decision table of _window_updated",
        "Every send site, unblock site, h2-mutating call and event arm of H2Protocol/StreamBuffer is enumerated from the current source and checked on all CFG paths: DATA length = max(0, min(stream window, frame size)); nothing-sent => stream blocked; unblock => send task woken; wait/clear/re-check discipline of the send task; END_STREAM only when complete and followed by cleanup; all eight h2 events dispatched, stream-0 and SETTINGS window changes unblock all streams; received DATA acknowledged; produced bytes flushed.",
        "delivery order/completeness under arbitrary task interleavings, priority-tree fairness, h2's own window accounting.",
        "5/C09",
    ),
    "C10": (
        "CFG reachability from the overflow handler, boundary evaluation of the size comparison, type-preservation tables, guard evaluation of the bytes/text dispatch with empty and None payloads, event-arm rules for ping/close",
        "A finished message is delivered once and the buffer cleared; overflow sends 1009, leaves the loop, delivers nothing and stays latched; extend() raises iff accumulated length > max; StringIO iff text; every ping answered with event.response(); empty binary payloads are still binary; received bytes reach wsproto unmodified.",
        "fragment reassembly, UTF-8 splitting, permessage-deflate (inside wsproto); byte equality.",
        "5/C10",
    ),
    "C11": (
        "exhaustive evaluation (checker's own interpreter) of Handshake.is_valid over 360 handshakes and of the HTTP/1.1 upgrade detection over 80 header combinations, header->field table, CFG dominance in _accept, disconnect-code table over all states, typestate rules",
        "Validity and carrier detection are decision tables compared with RFC 6455/8441 references; accept renders 101/200, the accept token from the key, only an offered subprotocol, validated extra headers, and validates before any state change or emission; close during handshake gives 403; the disconnect code is 1000 only after the stream's own close. Known finding F-23: a client-initiated close is reported as 1006.",
        "the accept token value and extension negotiation (wsproto).",
        "5/C11",
    ),
    "C12": (
        "evaluation of the app_send dispatch chains for every (message type, state, version) against a reference automaton of the ASGI specification, arm-sensitive provenance of header lists to wire events, interpretation of build_and_validate_headers on adversarial inputs, CFG dominance of the str checks, typestate reject=no-op rule",
        "Each of 80 (type, state) pairs must be accepted exactly when the reference automaton allows it and otherwise reach raise UnexpectedMessageError; every application header list reaching Response/InformationalResponse/Trailers/Request passes the validator, which rejects pseudo-headers (also after stripping), non-bytes, and CR/LF/NUL. Known findings F-26: http.response.push and websocket.close are accepted after completion.",
        "what h11/h2/wsproto validate on their own.",
        "5/C12",
    ),
    "C13": (
        "guard/provenance rules on the two switch exceptions and their handlers, argument-list equality of the replacement protocol construction, literal check of the replayed preface prefix, decision table for WebSocket carrier detection, ordering rules (initiate before replay)",
        "ALPN h2 picks H2Protocol with the same nine collaborators; _check_protocol precedes stream creation; the h2c switch needs upgrade: h2c and no body, is announced with 101, and both switches carry h11's trailing bytes; each handler builds a new H2Protocol, initiates it and replays error.data exactly once unless empty; the replayed prefix is exactly what h11 consumed; the WebSocket pass-through is seeded with trailing data and returns buffered bytes once.",
        "independence from segmentation (h11 buffering), TLS/ALPN negotiation, that h2 accepts the replayed bytes; the h2c path itself raises TypeError with the installed h2 4.4.1 (reported under C04).",
        "5/C13",
    ),
    "C14": (
        "CFG dominance (wait_for_startup dominates every accept-enabling call), handler-shape and guard rules for failure propagation, bounded-wait rules, call-site census of wait_for_shutdown, per-connection state-copy rule",
        "No server, listener, socket creation or per-connection class is reachable in worker_serve before the awaited wait_for_startup; startup.failed raises without releasing the wait itself and is re-raised; waits are bounded by the configured timeouts; lifespan.shutdown is requested once after the drain construct; each connection gets ConnectionState(state.copy()); unsupported lifespan is downgraded, logged and never blocks.",
        "races between startup completion and task completion, kernel backlog of inherited sockets.",
        "5/C14",
    ),
    "C15": (
        "CFG must-pass-through from the trigger wait to terminated.set(), ordering/dominance of the shutdown steps, census of awaits between terminated.set() and the bounded wait, truth table of the GOAWAY guard, trigger-race rule",
        "Every exit of the trigger wait sets terminated; listeners are closed, connection tasks awaited at most graceful_timeout, then lifespan shutdown; trio puts the deadline on the nursery owning the handlers; HTTP/2 refuses new streams and goes away when idle; HTTP/1 does not recycle; both trigger sources are raced. Known finding F-27: server.wait_closed() precedes the bounded wait (unbounded on CPython >= 3.12).",
        "wall-clock bounds, what clients observe, runtime cancellation semantics.",
        "5/C15",
    ),
    "C17": (
        "CFG must-pass-through with exceptional edges (close on every exit), feasible-path enumeration with constant flag tracking (start before first chunk, exactly once), boundary evaluation of the accumulated-size comparison, environ provenance table, reference census of run_app",
        "The WSGI callable has one call site; run_app is only ever the argument of sync_spawn and its sends wait for completion; from binding the iterable every exit passes the guarded close(); response_started is tested only after iteration began/ended; the accumulated body is compared with the limit and an oversized body is answered 400 without reaching the application; environ keys derive from their scope fields with repeated headers comma-joined.",
        "value-level equality of environ entries for arbitrary input, thread-pool behaviour.",
        "5/C17",
    ),
    "C18": (
        "wiring table (each limit read at its own sink), census of readers per config key, boundary evaluation of the three comparators, unconditional once-per-stream counting rules, jitter formula rule, library-fact rule for the HPACK decoder limit",
        "Ten limit settings are traced to their enforcement points; comparators are evaluated at boundary values (>= for HTTP/1, > for HTTP/2 and the worker); every created stream is counted and marked once; max_requests gets randint(0, jitter) added and terminate is raced with the shutdown trigger in both workers.",
        "that h11/h2/wsproto enforce the limits they are configured with.",
        "5/C18",
    ),
    "C19": (
        "ast model of argparse declarations and sentinel-guarded copy statements (wiring table), provenance of loader return values, truth-table comparison of header emission guards, branch-structure rules for bind parsing",
        "All CLI flags (every add_argument call) and all `config.Y = args.Z` statements are modelled from the source; each flag must set exactly its own setting from its own argument under a sentinel test whose default really is the sentinel; list flags append/copy-if-non-empty; the three loaders funnel into from_mapping which setattr()s every key; bind/root_path setters normalise; response_headers emits date/server/alt-svc exactly under their switches (truth table) in order; _create_sockets has the unix/fd/host:port branch structure.",
        "the sockets the OS produces for arbitrary bind strings, tomllib/importlib/argparse behaviour, value-level date formatting.",
        "5/C19",
    ),
    "C20": (
        "interpretation of _get_trusted_value's selection on 30 (hops, values) cases, CFG dominance of deepcopy over scope writes, guard rules for dispatch and lifespan fan-out, truth table of the redirect predicate, provenance of the rebuilt URL",
        "The trusted value is the one trusted_hops from the right or None (table); the scope is deep-copied before any write and the header list rebuilt, not mutated; mounts are tried in order with first match and a never-empty rewritten path, else 404; each lifespan *.complete is forwarded only when all flags of the same stage are set; exactly cleartext http/ws scopes are redirected, others pass through with the same objects.",
        "string-level results for arbitrary header contents, urlunsplit semantics.",
        "5/C20",
    ),
}


def main() -> None:
    checks = []
    for pid in PROPS:
        if pid not in CLAIMED:
            continue
        tech, text, notdec, ref = CLAIMED[pid]
        checks.append(
            {
                "property_id": pid,
                "quick_cmd": f"./check {pid} --tier quick",
                "thorough_cmd": f"./check {pid} --tier thorough",
                "evidence_file": f"/verif/evidence/{pid}.json",
                "replay_cmd_template": f"./check {pid} --replay {{path}}",
                "engine": "hcverif",
                "level_claimed": {"category": "other", "text": text, "design_ref": f"DESIGN.md section {ref}"},
                "level_note": COMMON_NOTE + notdec,
                "technique": "static analysis: " + tech,
            }
        )
    na_path = VERIF / "tools" / "not_applicable.json"
    na_reasons = json.loads(na_path.read_text()) if na_path.exists() else {}
    na = [
        {"property_id": pid, "reason": na_reasons.get(pid, "check not implemented yet (implementation in progress, see DESIGN.md section 11)")}
        for pid in PROPS
        if pid not in CLAIMED
    ]
    manifest = {
        "version": 1,
        "setup_cmd": "true",
        "hooks": {
            "guard": "HYPERCORN_VERIF",
            "enable": "no hooks: every check parses /repo/src/hypercorn with python's ast on each run; nothing in /repo is built, imported or instrumented",
            "baseline_off_cmd": "cd /repo && /venv/bin/python -m pytest -ra -q -p no:cacheprovider --timeout=900 --continue-on-collection-errors",
            "source_commits": [],
            "add_only": True,
        },
        "engines": [
            {
                "name": "hcverif",
                "path": "/verif/hcverif",
                "serves_properties": [c["property_id"] for c in checks],
                "kind_free_text": "repository-specific static analyser over python ast: repo model + resolver, statement CFG with exceptional edges and finally-copying, must-pass-through/dominance, flow-insensitive provenance, finite predicate tables, exception-escape analysis, typestate abstract interpretation of the stream classes, asyncio/trio sibling cross-check",
            }
        ],
        "checks": checks,
        "notes": "Static analysis only: no check runs hypercorn, its tests or a solver. Exit 0 = all rule instances discharged (KNOWN-FINDING lines for defects listed in known_findings.json); exit 1 + VIOLATION line = an unlisted violation; exit 2 + ANALYSIS-ERROR = anchor vanished / unsupported construct (never a silent pass; violations established before the analysis stopped are still reported with exit 1). Every module is first brought into a canonical form (hcverif/canon.py: behaviour-preserving rewrites that undo routine refactors against the pinned symbol table hcverif/known_symbols.json), so the rules judge what the code does rather than how it is spelt. The thorough tier re-runs the quick analysis and then the checker's own regression corpora on scratch copies: self-test mutants (must fire), the property's seeded breaking changes in seeded/ (must fire) and the behaviour-preserving refactors in neutral/ (must stay silent); corpus results go into the evidence (coverage.selftest / coverage.corpora) and never become a VIOLATION of the property.",
        "not_applicable": na,
    }
    (VERIF / "MANIFEST.json").write_text(json.dumps(manifest, indent=1) + "\n")
    print(f"MANIFEST: {len(checks)} checks, {len(na)} not_applicable")


if __name__ == "__main__":
    main()
