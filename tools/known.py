#!/venv/bin/python
"""Maintain /verif/known_findings.json (edited by hand / by this helper at development time, never by checks).

usage: known.py add <violation.json> <F-id> "<what fails: concrete input / history>"
       known.py fixed <property> <rule> <where> <construct> <F-id> <commit> "<what failed>"
"""
import json, sys
from pathlib import Path
P = Path("/verif/known_findings.json")
data = json.loads(P.read_text()) if P.exists() else []
cmd = sys.argv[1]
if cmd == "add":
    rec = json.load(open(sys.argv[2]))
    entry = {"id": sys.argv[3], "property": rec["property"], "rule": rec["rule"], "where": rec["where"], "construct": rec["construct"], "status": "known", "what": sys.argv[4]}
    data = [d for d in data if not (d["property"] == entry["property"] and d["rule"] == entry["rule"] and d["where"] == entry["where"] and d["construct"] == entry["construct"])]
    data.append(entry)
elif cmd == "fixed":
    _, _, prop, rule, where, construct, fid, commit, what = sys.argv
    data.append({"id": fid, "property": prop, "rule": rule, "where": where, "construct": construct, "status": "fixed", "commit": commit, "what": what})
data.sort(key=lambda d: (d["property"], d["rule"], d["where"], d["construct"]))
P.write_text(json.dumps(data, indent=1) + "\n")
print(len(data), "entries")
