#!/venv/bin/python
"""Apply every confirmed seeded change to a scratch copy of /repo/src and run all checks.

Writes /verif/seeded/MATRIX.md: which property checks raise a (new) VIOLATION for which seed.
"""
import json
import os
import re
import shutil
import subprocess
import sys
import tempfile
from concurrent.futures import ThreadPoolExecutor
from pathlib import Path

VERIF = Path("/verif")
PROPS = [f"C{i:02d}" for i in range(1, 21)]


def run_seed(seed: Path):
    tmp = Path(tempfile.mkdtemp(prefix="hcv.", dir="/tmp"))
    try:
        (tmp / "src").mkdir()
        shutil.copytree("/repo/src/hypercorn", tmp / "src" / "hypercorn")
        p = subprocess.run(["git", "apply", "-p1", str(seed / "patch.diff")], cwd=tmp, capture_output=True, text=True)
        if p.returncode != 0:
            return seed.name, None, "patch does not apply"
        hits = {}
        for prop in PROPS:
            r = subprocess.run([str(VERIF / "check"), prop, "--repo", str(tmp)], capture_output=True, text=True)
            rules = sorted(set(re.findall(r"^  rule=(\S+)", r.stdout, flags=re.M)))
            if r.returncode == 1:
                hits[prop] = rules
            elif r.returncode == 2:
                hits[prop] = ["ANALYSIS-ERROR"]
        return seed.name, hits, ""
    finally:
        shutil.rmtree(tmp, ignore_errors=True)


def main():
    seeds = sorted(p for p in (VERIF / "seeded").iterdir() if p.is_dir() and (p / "patch.diff").exists())
    with ThreadPoolExecutor(max_workers=14) as ex:
        results = list(ex.map(run_seed, seeds))
    lines = ["# Seeded changes vs checks", "", "Each row: a confirmed behaviour-breaking change (see its meta.json) applied to a scratch copy; the checks that exit 1 with a new VIOLATION, and the rules that fire.", "", "| seed | property | caught by own check | all checks that fire (rules) |", "|---|---|---|---|"]
    missed = []
    for name, hits, err in results:
        prop = name.split("-")[0]
        if hits is None:
            lines.append(f"| {name} | {prop} | - | {err} |")
            continue
        own = "yes" if prop in hits and hits[prop] != ["ANALYSIS-ERROR"] else "NO"
        if not hits:
            missed.append(name)
        elif own == "NO":
            pass
        desc = "; ".join(f"{p}: {', '.join(r)}" for p, r in hits.items()) or "none"
        lines.append(f"| {name} | {prop} | {own} | {desc} |")
    lines += ["", f"Seeds: {len(results)}; caught by at least one check: {sum(1 for _, h, _ in results if h)}; caught by the check of their own property: {sum(1 for n, h, _ in results if h and n.split('-')[0] in h)}; missed by all: {missed}"]
    (VERIF / "seeded" / "MATRIX.md").write_text("\n".join(lines) + "\n")
    print("\n".join(lines[-1:]))
    for name, hits, err in results:
        prop = name.split("-")[0]
        if hits is None or prop not in hits:
            print("NOT-OWN:", name, hits if hits is not None else err)


if __name__ == "__main__":
    main()
