#!/venv/bin/python
"""Freeze the symbol table of the pinned tree (functions and module-level names per module).
Helpers / constants NOT in this table are 'new' and are inlined / propagated by hcverif.canon."""
import ast, json, sys
from pathlib import Path
sys.path.insert(0, "/verif")
from hcverif.canon import symbols_of, KNOWN_FILE
src = Path("/repo/src/hypercorn")
out = {}
for path in sorted(src.rglob("*.py")):
    parts = list(path.relative_to(src).with_suffix("").parts)
    if parts[-1] == "__init__":
        parts = parts[:-1]
    out[".".join(parts)] = symbols_of(ast.parse(path.read_text()))
KNOWN_FILE.write_text(json.dumps(out, indent=1, sort_keys=True) + "\n")
print("modules", len(out), "functions", sum(len(v["functions"]) for v in out.values()))
