#!/venv/bin/python
"""Apply every behaviour-preserving refactor in /verif/neutral to a scratch copy of /repo/src and run all
checks: every one must stay silent (exit 0, no VIOLATION, no ANALYSIS-ERROR).  Writes neutral/MATRIX.md."""
import re
import shutil
import subprocess
import sys
import tempfile
from concurrent.futures import ThreadPoolExecutor
from pathlib import Path

VERIF = Path("/verif")
PROPS = [f"C{i:02d}" for i in range(1, 21)]


def run_one(d: Path):
    tmp = Path(tempfile.mkdtemp(prefix="hcn.", dir="/tmp"))
    try:
        (tmp / "src").mkdir()
        shutil.copytree("/repo/src/hypercorn", tmp / "src" / "hypercorn")
        p = subprocess.run(["git", "apply", "-p1", str(d / "patch.diff")], cwd=tmp, capture_output=True, text=True)
        if p.returncode != 0:
            return d.name, None
        alarms = {}
        for prop in PROPS:
            r = subprocess.run([str(VERIF / "check"), prop, "--repo", str(tmp)], capture_output=True, text=True)
            if r.returncode != 0:
                alarms[prop] = sorted(set(re.findall(r"^  rule=(\S+)", r.stdout, flags=re.M))) or [f"exit {r.returncode}"]
        return d.name, alarms
    finally:
        shutil.rmtree(tmp, ignore_errors=True)


def main():
    ds = sorted(p for p in (VERIF / "neutral").iterdir() if p.is_dir() and (p / "patch.diff").exists())
    with ThreadPoolExecutor(max_workers=14) as ex:
        results = list(ex.map(run_one, ds))
    lines = ["# Behaviour-preserving refactors vs checks", "", "Each row: a refactor that keeps behaviour (see its meta.json: kind, why_equivalent; the full test-suite passes with it) applied to a scratch copy; expected: all 20 checks silent.", "", "| refactor | result |", "|---|---|"]
    bad = []
    for name, alarms in results:
        if alarms is None:
            lines.append(f"| {name} | patch does not apply (context changed by a later fix) |")
        elif alarms:
            bad.append(name)
            lines.append(f"| {name} | FALSE ALARM: " + "; ".join(f"{p}: {', '.join(r)}" for p, r in alarms.items()) + " |")
        else:
            lines.append(f"| {name} | silent |")
    lines += ["", f"Refactors: {len(results)}; silent on all checks: {sum(1 for _, a in results if a == {})}; false alarms: {bad}"]
    (VERIF / "neutral" / "MATRIX.md").write_text("\n".join(lines) + "\n")
    print(lines[-1])
    return 1 if bad else 0


if __name__ == "__main__":
    sys.exit(main())
