"""F-34: h2_max_header_list_size is advertised but not enforced (the hpack decoder keeps h2's default limit)."""
from drv import *
async def app(scope, receive, send):
    await send({"type":"http.response.start","status":200,"headers":[]})
    await send({"type":"http.response.body","body":b"ok","more_body":False})
async def case(limit, size):
    srv,t,c=mk(app, http2=True, keep_alive_timeout=0.3, h2_max_header_list_size=limit)
    cl=h2client()
    await srv.reader.send(cl.data_to_send()); await settle()
    cl.send_headers(1,[(b":method",b"GET"),(b":scheme",b"http"),(b":authority",b"x"),(b":path",b"/"),(b"x-big",b"a"*size)], end_stream=True)
    await srv.reader.send(cl.data_to_send()); await settle(300)
    evs=[]
    while not srv.writer.data.empty():
        d=srv.writer.data.get_nowait()
        if d: evs+=cl.receive_data(d)
    names=[type(e).__name__ for e in evs]
    print(f"h2_max_header_list_size={limit}, header block ~{size} bytes ->", [n for n in names if n in ("ResponseReceived","StreamReset","ConnectionTerminated")], "decoder limit:", srv.protocol.protocol.connection.decoder.max_header_list_size)
    srv.reader.close(); await settle(100)
async def main():
    await case(100, 1000)
    await case(100, 60000)
    await case(2**16, 70000)
asyncio.run(main())
