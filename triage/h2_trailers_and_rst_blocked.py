"""F-31 (HTTP/2 trailers are never delivered) and F-33 (RST_STREAM of a window-blocked stream does not release its send)."""
from drv import *
state={}
async def trailers_app(scope, receive, send):
    await send({"type":"http.response.start","status":200,"headers":[], "trailers": True})
    await send({"type":"http.response.body","body":b"abc","more_body":False})
    await send({"type":"http.response.trailers","headers":[(b"x-trailer", b"1")],"more_trailers":False})
async def big_app(scope, receive, send):
    await send({"type":"http.response.start","status":200,"headers":[]})
    try:
        await send({"type":"http.response.body","body":b"x"*100000,"more_body":False})
        state["send_returned"]=True
    finally:
        state["exited"]=True

async def trailers():
    srv,t,c=mk(trailers_app, http2=True, keep_alive_timeout=0.3)
    cl=h2client()
    await srv.reader.send(cl.data_to_send()); await settle()
    cl.send_headers(1,[(b":method",b"GET"),(b":scheme",b"http"),(b":authority",b"x"),(b":path",b"/"),(b"te",b"trailers")], end_stream=True)
    await srv.reader.send(cl.data_to_send()); await settle(300)
    evs=[]
    while not srv.writer.data.empty():
        d=srv.writer.data.get_nowait()
        if d: evs+=cl.receive_data(d)
    names=[type(e).__name__ for e in evs]
    print("trailers: client events:",names)
    print("   -> TrailersReceived seen:", "TrailersReceived" in names, "| StreamEnded seen:", "StreamEnded" in names)
    srv.reader.close(); await settle(100)

async def rst_blocked():
    state.clear()
    srv,t,c=mk(big_app, http2=True, keep_alive_timeout=5)
    cl=h2client()
    await srv.reader.send(cl.data_to_send()); await settle()
    cl.send_headers(1,[(b":method",b"GET"),(b":scheme",b"http"),(b":authority",b"x"),(b":path",b"/")], end_stream=True)
    await srv.reader.send(cl.data_to_send()); await settle(300)
    n=0
    while not srv.writer.data.empty():
        d=srv.writer.data.get_nowait()
        if d:
            for e in cl.receive_data(d):
                if isinstance(e,h2.events.DataReceived): n+=len(e.data)
    print("rst: client got", n, "bytes (window exhausted), state", state)
    cl.reset_stream(1)
    await srv.reader.send(cl.data_to_send()); await settle(500)
    await asyncio.sleep(0.5)
    print("   -> 0.5s after RST_STREAM: state", state, "(send_returned/exited missing = still blocked)")
    srv.reader.close(); await settle(300)
    print("   -> after EOF:", await outcome(t,1.0), state)
async def main():
    await trailers()
    await rst_blocked()
asyncio.run(main())
