import asyncio, sys, traceback
sys.path.insert(0, "/repo")
import h2.connection, h2.config, h2.events, h11
from hypercorn.app_wrappers import ASGIWrapper
from hypercorn.asyncio.tcp_server import TCPServer
from hypercorn.asyncio.worker_context import WorkerContext
from hypercorn.config import Config
from tests.asyncio.helpers import MemoryReader, MemoryWriter

class Log:
    def __init__(s): s.access_n=0; s.exc=[]
    async def access(s,*a): s.access_n+=1; s.last=a
    async def exception(s,*a,**k): s.exc.append(a)
    async def info(s,*a,**k): pass
    async def warning(s,*a,**k): pass
    async def error(s,*a,**k): pass

def mk(app, http2=False, **cfg):
    c=Config()
    for k,v in cfg.items(): setattr(c,k,v)
    c._log=Log()
    loop=asyncio.get_running_loop()
    srv=TCPServer(ASGIWrapper(app), loop, c, WorkerContext(None), {}, MemoryReader(), MemoryWriter(http2=http2))
    t=loop.create_task(srv.run())
    return srv,t,c

def h2client():
    c = h2.connection.H2Connection(config=h2.config.H2Configuration(client_side=True, header_encoding=None, validate_outbound_headers=False, normalize_outbound_headers=False))
    c.initiate_connection()
    return c

async def settle(n=20):
    for _ in range(n): await asyncio.sleep(0)

async def outcome(t, timeout=0.3):
    try:
        await asyncio.wait_for(asyncio.shield(t), timeout)
        return "handler finished OK"
    except asyncio.TimeoutError:
        return "handler STILL RUNNING"
    except BaseException as e:
        return f"handler RAISED {type(e).__name__}: {e!r}"
