"""F-39?: trio worker + application that returns on the lifespan scope (e.g. every WSGI app)."""
import sys, socket
sys.path.insert(0, "/repo")
import trio
from hypercorn.config import Config
from hypercorn.trio import serve
def wsgi_app(environ, start_response):
    start_response("200 OK", [])
    return [b"ok"]
async def main():
    s=socket.socket(); s.bind(("127.0.0.1",0)); port=s.getsockname()[1]; s.close()
    c=Config(); c.bind=[f"127.0.0.1:{port}"]; c.accesslog=None; c.errorlog=None
    stop=trio.Event()
    async def client():
        await trio.sleep(0.5)
        try:
            st=await trio.open_tcp_stream("127.0.0.1",port)
            await st.send_all(b"GET / HTTP/1.1\r\nhost: x\r\nconnection: close\r\n\r\n")
            print("client got:", (await st.receive_some(100))[:30])
        except Exception as e:
            print("client error:", repr(e)[:80])
        stop.set()
    try:
        async with trio.open_nursery() as n:
            n.start_soon(client)
            await serve(wsgi_app, c, shutdown_trigger=stop.wait, mode="wsgi")
            print("serve returned normally")
    except BaseException as e:
        print("serve raised:", repr(e)[:200])
trio.run(main)
