from drv import *
import wsproto, wsproto.events
got=[]
async def ws_raise_in_handshake(scope, receive, send):
    got.append((await receive())["type"])
    raise RuntimeError("boom")
async def ws_wait(scope, receive, send):
    while True:
        m=await receive(); got.append(m)
        if m["type"]=="websocket.disconnect": return
async def ws_bad_subproto(scope, receive, send):
    await receive()
    await send({"type":"websocket.accept","subprotocol":"nope"})

REQ=b"GET / HTTP/1.1\r\nHost: x\r\nUpgrade: websocket\r\nConnection: Upgrade\r\nSec-WebSocket-Key: dGhlIHNhbXBsZSBub25jZQ==\r\nSec-WebSocket-Version: 13\r\n\r\n"
async def run(name, app, raw, then=None, wait=1.0):
    got.clear()
    srv,t,c=mk(app, keep_alive_timeout=0.3)
    await srv.reader.send(raw); await settle(50)
    if then: await then(srv)
    out=b""
    while not srv.writer.data.empty(): out+=srv.writer.data.get_nowait()
    print(name,"->",await outcome(t,wait),"| wire:",out[:40],"| access:",c._log.access_n,"| app got:",got,"| closed:",srv.writer.is_closed)
async def eof(srv):
    srv.reader.close(); await settle(50)
async def main():
    await run("ws app raises in handshake", ws_raise_in_handshake, REQ, eof)
    await run("ws early data before accept", ws_wait, REQ+b"\x81\x00", eof)
    await run("ws client EOF during handshake", ws_wait, REQ, eof)
    await run("ws accept w/ invalid subprotocol", ws_bad_subproto, REQ, eof)
asyncio.run(main())
