import asyncio, sys, time
sys.path.insert(0,"/repo")
from hypercorn.asyncio import serve
from hypercorn.config import Config
async def app(scope, receive, send):
    if scope["type"]=="lifespan":
        while True:
            m=await receive()
            if m["type"]=="lifespan.startup": await send({"type":"lifespan.startup.complete"})
            else:
                print("   lifespan.shutdown at", round(time.monotonic()-T0,2)); await send({"type":"lifespan.shutdown.complete"}); return
    else:
        await asyncio.sleep(30)   # stuck request
T0=time.monotonic()
async def main():
    global T0
    cfg=Config(); cfg.bind=["127.0.0.1:18777"]; cfg.graceful_timeout=0.5; cfg.errorlog=None
    ev=asyncio.Event()
    t=asyncio.create_task(serve(app,cfg,shutdown_trigger=ev.wait))
    await asyncio.sleep(0.3)
    r,w=await asyncio.open_connection("127.0.0.1",18777)
    w.write(b"GET / HTTP/1.1\r\nHost: x\r\n\r\n"); await w.drain(); await asyncio.sleep(0.2)
    T0=time.monotonic(); ev.set()
    try:
        await asyncio.wait_for(asyncio.shield(t), 5); print("serve returned after", round(time.monotonic()-T0,2))
    except asyncio.TimeoutError: print("serve NOT returned within 5s (graceful_timeout=0.5)")
    import os; os._exit(0)
asyncio.run(main())
