import sys; sys.path.insert(0,"/repo")
import hypercorn.__main__ as m
from hypercorn.config import Config
cap={}
m.run=lambda c: cap.setdefault("c",c) and 0
m.main(["--max-requests","5","--max-requests-jitter","7","app:app"]); c=cap.pop("c")
print("max_requests",c.max_requests,"jitter",c.max_requests_jitter)
m.main(["--max-requests-jitter","7","app:app"]); c=cap.pop("c")
print("only jitter: max_requests",c.max_requests,"jitter",c.max_requests_jitter)
open("/tmp/hc_triage_c.toml","w").write('statsd_prefix="abc"\n')
m.main(["-c","/tmp/hc_triage_c.toml","app:app"]); c=cap.pop("c")
print("statsd_prefix from toml, no flag:",repr(c.statsd_prefix))
# WSGI lazy
from hypercorn.app_wrappers import WSGIWrapper
closed=[]
class It:
    def __init__(s,sr): s.sr=sr; s.i=0
    def __iter__(s): return s
    def __next__(s):
        if s.i==0:
            s.sr("200 OK",[]); 
        s.i+=1
        if s.i>2: raise StopIteration
        return b"x"
    def close(s): closed.append(1)
def lazy(environ, sr): return It(sr)
def gen(environ, sr):
    sr("200 OK",[]); yield b"a"
w=WSGIWrapper(lazy,100)
out=[]
try: w.run_app({}, out.append); print("lazy iterator ok",out)
except Exception as e: print("lazy iterator ->",type(e).__name__,e,"close calls:",len(closed))
w=WSGIWrapper(gen,100)
try: w.run_app({}, out.append); print("generator ok",out)
except Exception as e: print("generator app ->",type(e).__name__,e)
