from drv import *
state={}
async def one_big(scope, receive, send):
    await send({"type":"http.response.start","status":200,"headers":[]})
    try:
        await send({"type":"http.response.body","body":b"x"*200000,"more_body":False})
        state["send_returned"]=True
    finally:
        state["exited"]=True

async def main():
    srv,t,c=mk(one_big, http2=True, keep_alive_timeout=0.3)
    cl=h2client()
    await srv.reader.send(cl.data_to_send()); await settle()
    cl.send_headers(1,[(b":method",b"GET"),(b":scheme",b"http"),(b":authority",b"x"),(b":path",b"/")], end_stream=True)
    await srv.reader.send(cl.data_to_send()); await settle(200)
    print("before EOF:",state)
    srv.reader.close(); await settle(200)
    print("after EOF ->",await outcome(t,1.5),"state:",state, "writer closed:", srv.writer.is_closed)
asyncio.run(main())
