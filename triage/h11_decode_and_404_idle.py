from drv import *
async def ok_app(scope, receive, send):
    if scope["type"]=="http":
        await send({"type":"http.response.start","status":200,"headers":[]})
        await send({"type":"http.response.body","body":b"hi"})

async def h1(name, raw, app=ok_app, wait=1.0, **cfg):
    srv,t,c=mk(app, keep_alive_timeout=0.3, **cfg)
    await srv.reader.send(raw); await settle(50)
    out=b""
    while not srv.writer.data.empty(): out+=srv.writer.data.get_nowait()
    print(name,"->",await outcome(t,wait),"| wire:",out[:60],"| access:",c._log.access_n,"| closed:",srv.writer.is_closed)
    return srv,t,c

async def main():
    await h1("h11 host \\xff with server_names", b"GET / HTTP/1.1\r\nHost: \xff\r\n\r\n", server_names=["x"])
    await h1("h2c upgrade non-utf8 settings", b"GET / HTTP/1.1\r\nHost: x\r\nUpgrade: h2c\r\nHTTP2-Settings: \xff\r\n\r\n")
    await h1("h11 wrong server name -> 404; then idle", b"GET / HTTP/1.1\r\nHost: y\r\n\r\n", server_names=["x"], wait=1.0)
asyncio.run(main())
