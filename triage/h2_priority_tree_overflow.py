from drv import *
async def ok_app(scope, receive, send):
    await send({"type":"http.response.start","status":200,"headers":[]})
    await send({"type":"http.response.body","body":b"hi"})
async def main():
    srv,t,c=mk(ok_app, http2=True, keep_alive_timeout=0.3)
    cl=h2client()
    await srv.reader.send(cl.data_to_send()); await settle()
    for i in range(1100):
        cl.prioritize(2*i+1, weight=16)
    await srv.reader.send(cl.data_to_send()); await settle(50)
    print("1100 PRIORITY frames ->", await outcome(t,0.5))
asyncio.run(main())
