import h2.connection, h2.config
s = h2.connection.H2Connection(config=h2.config.H2Configuration(client_side=False, header_encoding=None))
c = h2.connection.H2Connection(config=h2.config.H2Configuration(client_side=True, header_encoding=None))
c.initiate_connection(); s.initiate_connection()
s.receive_data(c.data_to_send()); c.receive_data(s.data_to_send())
c.send_headers(1,[(b":method",b"GET"),(b":scheme",b"http"),(b":authority",b"x"),(b":path",b"/")], end_stream=True)
s.receive_data(c.data_to_send())
for hdr in [(b"x-a", b"v\r\nset-cookie: evil=1"), (b"x\r\nb", b"v"), (b"x-n", b"a\x00b"), (b"x a", b"v")]:
    try:
        s2=s
        s.send_headers(1,[(b":status",b"200"), hdr]); d=s.data_to_send()
        try:
            evs=c.receive_data(d); print(hdr,"-> sent and client got", evs[0].headers if evs else evs)
        except Exception as e: print(hdr,"-> sent; client rejects:",type(e).__name__,e)
        break
    except Exception as e:
        print(hdr,"-> server h2 raises",type(e).__name__,e)
