from drv import *
state={}
async def big_app(scope, receive, send):
    await send({"type":"http.response.start","status":200,"headers":[]})
    try:
        for i in range(100):
            await send({"type":"http.response.body","body":b"x"*65536,"more_body":True})
            state["sent"]=i
    finally:
        state["exited"]=True
async def fail_mid(scope, receive, send):
    await send({"type":"http.response.start","status":200,"headers":[(b"content-length",b"10")]})
    await send({"type":"http.response.body","body":b"abc","more_body":True})
    raise RuntimeError("boom")

async def h2case(name, app, eof=True):
    state.clear()
    srv,t,c=mk(app, http2=True, keep_alive_timeout=0.3)
    cl=h2client()
    await srv.reader.send(cl.data_to_send()); await settle()
    cl.send_headers(1,[(b":method",b"GET"),(b":scheme",b"http"),(b":authority",b"x"),(b":path",b"/")], end_stream=True)
    await srv.reader.send(cl.data_to_send()); await settle(200)
    evs=[]
    while not srv.writer.data.empty():
        d=srv.writer.data.get_nowait()
        if d: evs+=cl.receive_data(d)
    print(name,"client events:",[type(e).__name__ for e in evs][:8], "state:",state)
    if eof:
        srv.reader.close(); await settle(200)
    print("   ->",await outcome(t,1.5),"state:",state)
async def main():
    await h2case("h2 blocked send then client EOF", big_app)
    await h2case("h2 app fails mid response (no EOF)", fail_mid, eof=False)
asyncio.run(main())
