from drv import *
import time
async def ok_app(scope, receive, send):
    await send({"type":"http.response.start","status":200,"headers":[(b"content-length",b"2")]})
    await send({"type":"http.response.body","body":b"hi"})
async def main():
    # idle connection, client EOF: how long until handler finishes? keep_alive_timeout=2
    srv,t,c=mk(ok_app, keep_alive_timeout=2)
    await settle()
    t0=time.monotonic(); srv.reader.close()
    print("EOF while idle (never sent anything):",await outcome(t,5), round(time.monotonic()-t0,2),"s")
    srv,t,c=mk(ok_app, keep_alive_timeout=2)
    await srv.reader.send(b"GET / HTTP/1.1\r\nHost: x\r\n\r\n"); await settle(50)
    t0=time.monotonic(); srv.reader.close()
    print("EOF between keep-alive requests:",await outcome(t,5), round(time.monotonic()-t0,2),"s")
asyncio.run(main())
