"""F-32: asyncio worker serves requests after lifespan.startup.failed when the app unwinds asynchronously."""
import asyncio, socket, sys
sys.path.insert(0, "/repo")
from hypercorn.config import Config
from hypercorn.asyncio import serve
events=[]
async def app(scope, receive, send):
    if scope["type"]=="lifespan":
        await receive()
        try:
            await send({"type":"lifespan.startup.failed","message":"db down"})
        finally:
            await asyncio.sleep(1.0)   # asynchronous clean-up while the failure propagates
            events.append("cleanup done")
        return
    events.append("http scope created")
    await send({"type":"http.response.start","status":200,"headers":[]})
    await send({"type":"http.response.body","body":b"served"})
async def main():
    s=socket.socket(); s.bind(("127.0.0.1",0)); port=s.getsockname()[1]; s.close()
    c=Config(); c.bind=[f"127.0.0.1:{port}"]; c.accesslog=None; c.errorlog=None
    stop=asyncio.Event()
    t=asyncio.create_task(serve(app,c,shutdown_trigger=stop.wait))
    got=None
    for _ in range(15):
        await asyncio.sleep(0.1)
        try:
            r,w=await asyncio.open_connection("127.0.0.1",port)
            w.write(b"GET / HTTP/1.1\r\nhost: x\r\nconnection: close\r\n\r\n"); await w.drain()
            got=await asyncio.wait_for(r.read(200),1); w.close(); break
        except Exception as e:
            got=repr(e)
    print("client got:", got[:40] if got else got, "| app events:", events)
    stop.set()
    try:
        await asyncio.wait_for(t,5); print("serve() returned normally")
    except Exception as e:
        print("serve() raised", type(e).__name__, e)
asyncio.run(main())
