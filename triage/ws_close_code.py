from drv import *
import wsproto, wsproto.events as we
got=[]
async def ws_app(scope, receive, send):
    await receive(); await send({"type":"websocket.accept"})
    while True:
        m=await receive(); got.append(m)
        if m["type"]=="websocket.disconnect": return
async def main():
    srv,t,c=mk(ws_app, keep_alive_timeout=0.3)
    cl=wsproto.WSConnection(wsproto.ConnectionType.CLIENT)
    await srv.reader.send(cl.send(we.Request(host="x",target="/"))); await settle(50)
    cl.receive_data(await srv.writer.receive()); list(cl.events())
    await srv.reader.send(cl.send(we.CloseConnection(code=1001, reason="bye"))); await settle(50)
    print("client-initiated close code=1001 -> app got:", got)
asyncio.run(main())
