from drv import *
async def ok_app(scope, receive, send):
    if scope["type"]=="http":
        await send({"type":"http.response.start","status":200,"headers":[]})
        await send({"type":"http.response.body","body":b"hi"})

async def case(name, hdrs, extra=None):
    srv,t,c=mk(ok_app, http2=True, keep_alive_timeout=0.2)
    cl=h2client()
    await srv.reader.send(cl.data_to_send()); await settle()
    cl.send_headers(1,hdrs, end_stream=False)
    await srv.reader.send(cl.data_to_send()); await settle()
    if extra: 
        await extra(srv,cl)
    print(name,"->",await outcome(t,1.0))

async def late_data(srv,cl):
    # drain server output into client
    while not srv.writer.data.empty():
        cl.receive_data(srv.writer.data.get_nowait())
    cl.send_data(1,b"late",end_stream=True)
    await srv.reader.send(cl.data_to_send()); await settle()

async def main():
    await case("plain CONNECT no :path",[(b":method",b"CONNECT"),(b":authority",b"e:443")])
    await case("non-ascii path",[(b":method",b"GET"),(b":scheme",b"http"),(b":authority",b"x"),(b":path",b"/\xff")])
    await case("non-ascii method",[(b":method",b"G\xc3\xa9T"),(b":scheme",b"http"),(b":authority",b"x"),(b":path",b"/")])
    await case("DATA after response complete",[(b":method",b"POST"),(b":scheme",b"http"),(b":authority",b"x"),(b":path",b"/")], late_data)
asyncio.run(main())
