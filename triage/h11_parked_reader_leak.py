from drv import *
state={}
gate=None
async def fail_mid(scope, receive, send):
    await send({"type":"http.response.start","status":200,"headers":[(b"content-length",b"10")]})
    await send({"type":"http.response.body","body":b"abc","more_body":True})
    raise RuntimeError("boom")
async def slow(scope, receive, send):
    await gate.wait()
    state["app_done"]=True

REQ=b"GET /a HTTP/1.1\r\nHost: x\r\n\r\n"
async def main():
    global gate
    # 1: pipelined, first app fails mid-response -> server closes; does handler finish after client EOF?
    srv,t,c=mk(fail_mid, keep_alive_timeout=0.3)
    await srv.reader.send(REQ+REQ); await settle(100)
    print("1 writer closed:",srv.writer.is_closed)
    srv.reader.close(); await settle(100)
    print("1 pipelined + app fail mid-response ->",await outcome(t,1.0))
    # 2: pipelined, write failure (client reset) while app still running, then app returns
    gate=asyncio.Event()
    srv,t,c=mk(slow, keep_alive_timeout=0.3)
    await srv.reader.send(REQ+REQ); await settle(100)
    await srv.protocol.handle(__import__("hypercorn.events",fromlist=["Closed"]).Closed())  # what protocol_send does on write failure
    gate.set(); await settle(100)
    srv.reader.close(); await settle(100)
    print("2 pipelined + peer loss while parked ->",await outcome(t,1.0),state)
asyncio.run(main())
