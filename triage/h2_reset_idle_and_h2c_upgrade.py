from drv import *
import time
state={}
async def slow(scope, receive, send):
    m=await receive()
    while m["type"]!="http.disconnect": m=await receive()
    state["disc"]=True
async def main():
    srv,t,c=mk(slow, http2=True, keep_alive_timeout=0.3)
    cl=h2client()
    await srv.reader.send(cl.data_to_send()); await settle()
    cl.send_headers(1,[(b":method",b"POST"),(b":scheme",b"http"),(b":authority",b"x"),(b":path",b"/")], end_stream=False)
    await srv.reader.send(cl.data_to_send()); await settle(50)
    cl.reset_stream(1)
    await srv.reader.send(cl.data_to_send()); await settle(50)
    await asyncio.sleep(1.0)
    print("h2: after RST of only stream, 1s later (keep_alive 0.3): writer closed =",srv.writer.is_closed, state, "idle handle:",srv.idle_task._handle)
    # h2c with garbage settings
    srv,t,c=mk(slow, keep_alive_timeout=0.3)
    await srv.reader.send(b"GET / HTTP/1.1\r\nHost: x\r\nUpgrade: h2c\r\nHTTP2-Settings: !!!!\r\n\r\n"); await settle(50)
    print("h2c garbage settings ->", await outcome(t,0.5))
    srv,t,c=mk(slow, keep_alive_timeout=0.3)
    await srv.reader.send(b"GET / HTTP/1.1\r\nHost: x\r\nUpgrade: h2c\r\nHTTP2-Settings: AAAA\r\n\r\n"); await settle(50)
    print("h2c truncated settings ->", await outcome(t,0.5))
asyncio.run(main())
