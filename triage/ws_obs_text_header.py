"""F-40: obs-text byte in a WebSocket handshake header (sec-websocket-protocol) -> UnicodeDecodeError out of the read loop."""
from drv import *
async def app(scope, receive, send):
    pass
async def main():
    srv,t,c=mk(app, keep_alive_timeout=0.3)
    await srv.reader.send(b"GET /ws HTTP/1.1\r\nhost: x\r\nconnection: upgrade\r\nupgrade: websocket\r\nsec-websocket-key: dGhlIHNhbXBsZSBub25jZQ==\r\nsec-websocket-version: 13\r\nsec-websocket-protocol: caf\xe9\r\n\r\n")
    await settle(100)
    print("obs-text in sec-websocket-protocol ->", await outcome(t, 1.0))
asyncio.run(main())
