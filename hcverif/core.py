"""Core plumbing: repository model, findings, known-findings matching, evidence, exit codes.

Nothing in here (or anywhere in hcverif) imports or executes hypercorn: modules are
read as text and parsed with ``ast``.
"""
from __future__ import annotations

import ast
import hashlib
import json
import os
import sys
import time
from dataclasses import dataclass, field
from pathlib import Path
from typing import Any, Callable, Dict, Iterable, List, Optional, Tuple

VERIF = Path(__file__).resolve().parent.parent
REPO = Path(os.environ.get("HCVERIF_REPO", "/repo"))
SRC_REL = Path("src") / "hypercorn"


class AnalysisError(Exception):
    """Anchor vanished / unsupported construct / floor not met: exit 2, never a VIOLATION."""


# --------------------------------------------------------------------------- repo model


@dataclass
class Module:
    name: str  # e.g. "protocol.h2" ; package __init__ is "protocol" / "" for top
    path: Path
    src: str
    tree: ast.Module


def _set_parents(tree: ast.AST) -> None:
    for parent in ast.walk(tree):
        for child in ast.iter_child_nodes(parent):
            child._parent = parent  # type: ignore[attr-defined]
    tree._parent = None  # type: ignore[attr-defined]


class Repo:
    def __init__(self, root: Optional[Path] = None) -> None:
        self.root = Path(root) if root else REPO
        self.src = self.root / SRC_REL
        if not self.src.is_dir():
            raise AnalysisError(f"source directory {self.src} not found")
        self.modules: Dict[str, Module] = {}
        from .canon import canonicalise, load_known

        known = None if os.environ.get("HCVERIF_NO_CANON") else load_known()
        self.canon_stats: Dict[str, Any] = {}
        for path in sorted(self.src.rglob("*.py")):
            rel = path.relative_to(self.src)
            parts = list(rel.with_suffix("").parts)
            if parts[-1] == "__init__":
                parts = parts[:-1]
            name = ".".join(parts)
            text = path.read_text()
            try:
                tree = ast.parse(text, filename=str(path))
            except SyntaxError as error:
                raise AnalysisError(f"cannot parse {path}: {error}")
            if known is not None:
                st = canonicalise(name, tree, known)
                if st:
                    self.canon_stats[name] = st
            _set_parents(tree)
            for node in ast.walk(tree):
                node._module = name  # type: ignore[attr-defined]
            self.modules[name] = Module(name, path, text, tree)
        # a method renamed in its own module is also renamed where other modules call it
        for mname, st in list(self.canon_stats.items()):
            for ren in st.get("function_renames_undone", []):
                new_q, old_q = ren.split("->")
                new_n, old_n = new_q.rsplit(".", 1)[-1], old_q.rsplit(".", 1)[-1]
                for other, mod in self.modules.items():
                    if other == mname:
                        continue
                    for node in ast.walk(mod.tree):
                        if isinstance(node, ast.Attribute) and node.attr == new_n:
                            node.attr = old_n
                        elif isinstance(node, ast.alias) and node.name == new_n:
                            node.name = old_n
                        elif isinstance(node, ast.Name) and node.id == new_n and "." not in old_q:
                            node.id = old_n
        self._func_cache: Dict[Tuple[str, str], ast.AST] = {}

    # -- lookup
    def module(self, name: str) -> Module:
        if name not in self.modules:
            raise AnalysisError(f"module hypercorn.{name} not found (anchor vanished)")
        return self.modules[name]

    def has_module(self, name: str) -> bool:
        return name in self.modules

    def relpath(self, module: str) -> str:
        return str(self.module(module).path.relative_to(self.root))

    def find(self, module: str, qual: str, required: bool = True) -> Optional[ast.AST]:
        """Find class / function / method / nested function by dotted qualname."""
        key = (module, qual)
        if key in self._func_cache:
            return self._func_cache[key]
        node: ast.AST = self.module(module).tree
        for part in qual.split("."):
            found = None
            body = getattr(node, "body", [])
            for child in _iter_defs(body):
                if getattr(child, "name", None) == part:
                    found = child
                    break
            if found is None:
                moved = self._relocated(module, qual)
                if moved is not None:
                    self._func_cache[key] = moved
                    return moved
                if required:
                    raise AnalysisError(f"hypercorn.{module}:{qual} not found (anchor vanished)")
                return None
            node = found
        self._func_cache[key] = node
        return node

    def _relocated(self, module: str, qual: str) -> Optional[ast.AST]:
        """A pinned closure that is gone while exactly one NEW function of the same name exists in
        the module (hoisted to a method or to module level) is that function."""
        from .canon import load_known

        if qual.count(".") < 1:
            return None
        name = qual.rsplit(".", 1)[-1]
        known = (load_known().get(module) or {}).get("functions", [])
        if qual not in known:
            return None
        cands = [fn for m, q, fn in _walk_funcs(module, "", self.modules[module].tree) if q.rsplit(".", 1)[-1] == name and q not in known]
        return cands[0] if len(cands) == 1 else None

    def func(self, module: str, qual: str) -> ast.AST:
        node = self.find(module, qual)
        if not isinstance(node, (ast.FunctionDef, ast.AsyncFunctionDef)):
            raise AnalysisError(f"hypercorn.{module}:{qual} is not a function")
        return node

    def cls(self, module: str, qual: str) -> ast.ClassDef:
        node = self.find(module, qual)
        if not isinstance(node, ast.ClassDef):
            raise AnalysisError(f"hypercorn.{module}:{qual} is not a class")
        return node

    def methods(self, module: str, cls: str) -> Dict[str, ast.AST]:
        c = self.cls(module, cls)
        return {
            n.name: n for n in c.body if isinstance(n, (ast.FunctionDef, ast.AsyncFunctionDef))
        }

    def all_functions(self) -> Iterable[Tuple[str, str, ast.AST]]:
        for mname, mod in self.modules.items():
            yield from _walk_funcs(mname, "", mod.tree)

    def digest(self) -> str:
        h = hashlib.sha256()
        for name in sorted(self.modules):
            h.update(name.encode())
            h.update(self.modules[name].src.encode())
        return h.hexdigest()[:16]


def _iter_defs(body: List[ast.stmt]) -> Iterable[ast.AST]:
    """Definitions directly in body, looking through if/try at module/class level."""
    for stmt in body:
        if isinstance(stmt, (ast.FunctionDef, ast.AsyncFunctionDef, ast.ClassDef)):
            yield stmt
        elif isinstance(stmt, ast.If):
            yield from _iter_defs(stmt.body)
            yield from _iter_defs(stmt.orelse)
        elif isinstance(stmt, ast.Try):
            yield from _iter_defs(stmt.body)
            for h in stmt.handlers:
                yield from _iter_defs(h.body)
            yield from _iter_defs(stmt.orelse)
            yield from _iter_defs(stmt.finalbody)
        elif isinstance(stmt, (ast.With, ast.AsyncWith, ast.For, ast.AsyncFor, ast.While)):
            yield from _iter_defs(stmt.body)


def _walk_funcs(mname: str, prefix: str, node: ast.AST) -> Iterable[Tuple[str, str, ast.AST]]:
    for child in ast.iter_child_nodes(node):
        if isinstance(child, (ast.FunctionDef, ast.AsyncFunctionDef)):
            q = f"{prefix}{child.name}"
            yield (mname, q, child)
            yield from _walk_funcs(mname, q + ".", child)
        elif isinstance(child, ast.ClassDef):
            yield from _walk_funcs(mname, f"{prefix}{child.name}.", child)
        else:
            yield from _walk_funcs(mname, prefix, child)


# --------------------------------------------------------------------------- findings


@dataclass
class Finding:
    prop: str
    rule: str
    where: str  # "module:Qual.name"
    construct: str  # normalised construct / input-word class (never a line number)
    what: str
    file: str = ""
    line: int = 0
    detail: Dict[str, Any] = field(default_factory=dict)

    def key(self) -> Tuple[str, str, str, str]:
        return (self.prop, self.rule, self.where, self.construct)


@dataclass
class Instance:
    rule: str
    where: str
    construct: str
    ok: bool
    nontrivial: bool = True


class Ctx:
    """Collects rule instances, findings and samples for one property check."""

    def __init__(self, prop: str, repo: Repo, tier: str) -> None:
        self.prop = prop
        self.repo = repo
        self.tier = tier
        self.instances: List[Instance] = []
        self.findings: List[Finding] = []
        self.samples: List[Any] = []
        self.assumptions: List[str] = []
        self.rules: Dict[str, str] = {}  # rule id -> description
        self.floors: Dict[str, int] = {}
        self.extra: Dict[str, Any] = {}
        self.states = 0
        self.transitions = 0
        self._sample_rules: Dict[str, int] = {}

    # -- declaring
    def rule(self, rid: str, text: str, floor: int = 1) -> None:
        self.rules[rid] = text
        self.floors[rid] = floor

    def assume(self, text: str) -> None:
        if text not in self.assumptions:
            self.assumptions.append(text)

    def loc(self, node: Optional[ast.AST]) -> Tuple[str, int]:
        if node is None:
            return ("", 0)
        m = getattr(node, "_module", None)
        file = self.repo.relpath(m) if m is not None and self.repo.has_module(m) else ""
        return (file, getattr(node, "lineno", 0))

    def check(
        self,
        rule: str,
        where: str,
        construct: str,
        ok: bool,
        what: str = "",
        node: Optional[ast.AST] = None,
        detail: Optional[Dict[str, Any]] = None,
        sample: Any = None,
        nontrivial: bool = True,
        at: Optional[Tuple[str, int]] = None,
    ) -> bool:
        """Register one rule instance. ``ok`` False => a finding."""
        if rule not in self.rules:
            raise AnalysisError(f"internal: rule {rule} not declared")
        self.instances.append(Instance(rule, where, construct, bool(ok), nontrivial))
        file, line = self.loc(node) if at is None else at
        line = int(line or 0)  # inlined statements carry fractional positions (see canon)
        if self._sample_rules.get(rule, 0) < 3:
            self._sample_rules[rule] = self._sample_rules.get(rule, 0) + 1
            self.samples.append(
                {
                    "rule": rule,
                    "where": where,
                    "construct": construct,
                    "at": f"{file}:{line}" if file else "",
                    "verdict": "ok" if ok else "violation",
                    **({"case": sample} if sample is not None else {}),
                }
            )
        if not ok:
            self.findings.append(
                Finding(self.prop, rule, where, construct, what, file, line, detail or {})
            )
        return bool(ok)

    def need(self, cond: Any, msg: str) -> None:
        if not cond:
            raise AnalysisError(msg)


class Alias:
    """View of a Ctx under which another property's rules are evaluated as ONE rule of this property.

    Used where two properties share a structural clause (e.g. HTTP/2 wake-up pairing is a necessary
    condition of C09 liveness, of C08 "pressure abates => send returns" and of C02 delivery)."""

    def __init__(self, ctx: "Ctx", rule: str, text: str, only=None, where=None) -> None:
        self._ctx = ctx
        self._depth = getattr(ctx, "_depth", 0) + 1  # an alias evaluated inside an alias is not followed (see rules/*.run)
        self._rule = rule
        self._only = only
        self._where = where
        ctx.rule(rule, text, floor=1)

    def __getattr__(self, name):
        return getattr(self._ctx, name)

    def rule(self, rid: str, text: str, floor: int = 1) -> None:
        pass

    def assume(self, text: str) -> None:
        pass

    def check(self, rule, where, construct, ok, what="", node=None, detail=None, sample=None, nontrivial=True, at=None):
        if self._only is not None and rule not in self._only:
            return bool(ok)
        if self._where is not None and not any(w in where for w in self._where):
            return bool(ok)
        return self._ctx.check(self._rule, where, f"{rule}: {construct}", ok, what, node, detail, sample, nontrivial, at)


# --------------------------------------------------------------------------- known findings

KNOWN_PATH = VERIF / "known_findings.json"


def load_known() -> List[Dict[str, Any]]:
    if not KNOWN_PATH.exists():
        return []
    return json.loads(KNOWN_PATH.read_text())


def finish(ctx: Ctx, started: float, seed: int, partial: Optional[str] = None) -> int:
    """Print verdict lines, write evidence, return the exit code.
    ``partial``: the analysis stopped early with this message (anchor vanished ...); violations
    found before that point are still reported, floors are not enforced."""
    prop = ctx.prop
    if partial is not None:
        ctx.floors = {}
        ctx.extra["analysis_error"] = partial
    # instance floors: a rule that matched fewer sites than confirmed by hand is an analysis error
    counts: Dict[str, int] = {}
    for inst in ctx.instances:
        counts[inst.rule] = counts.get(inst.rule, 0) + 1
    short = [
        f"{rid} matched {counts.get(rid, 0)} < floor {floor}"
        for rid, floor in ctx.floors.items()
        if counts.get(rid, 0) < floor
    ]
    if short:
        raise AnalysisError("instance floor not met: " + "; ".join(short))

    known = [k for k in load_known() if k.get("property") == prop]
    known_keys = {
        (k["property"], k["rule"], k["where"], k["construct"]): k
        for k in known
        if k.get("status") == "known"
    }
    fixed_keys = {
        (k["property"], k["rule"], k["where"], k["construct"]): k
        for k in known
        if k.get("status") == "fixed"
    }
    violations: List[Finding] = []
    known_hits: List[Finding] = []
    seen = set()
    for f in ctx.findings:
        if f.key() in seen:
            continue
        seen.add(f.key())
        if f.key() in known_keys:
            known_hits.append(f)
        else:
            violations.append(f)

    for rid in sorted(ctx.rules):
        n = counts.get(rid, 0)
        bad = sum(1 for i in ctx.instances if i.rule == rid and not i.ok)
        print(f"OK rule={rid} instances={n}" if bad == 0 else f"RULE rule={rid} instances={n} failing={bad}")
    for f in known_hits:
        k = known_keys[f.key()]
        print(f"KNOWN-FINDING: property={prop} {k.get('id', '')} rule={f.rule} at {f.where} [{f.construct}] ({f.file}:{f.line}): {k.get('what', f.what)}")
    scratch = ctx.repo.root.resolve() != REPO.resolve()
    outdir = VERIF / "out" / ("scratch-violations" if scratch else "violations") / prop
    if outdir.is_dir():
        for stale in outdir.glob("*.json"):
            stale.unlink()
    for f in violations:
        outdir.mkdir(parents=True, exist_ok=True)
        kh = hashlib.sha256("|".join(f.key()).encode()).hexdigest()[:12]
        path = outdir / f"{kh}.json"
        recurrence = f.key() in fixed_keys
        path.write_text(
            json.dumps(
                {
                    "property": prop,
                    "rule": f.rule,
                    "rule_text": ctx.rules.get(f.rule, ""),
                    "where": f.where,
                    "construct": f.construct,
                    "file": f.file,
                    "line": f.line,
                    "what": f.what,
                    "detail": f.detail,
                    "recurrence_of_fixed_finding": recurrence,
                },
                indent=1,
                default=str,
            )
        )
        print(f"  rule={f.rule} at {f.where} [{f.construct}] ({f.file}:{f.line}): {f.what}")
        print(f"VIOLATION property={prop} replay={path}")

    wall = time.time() - started
    distinct = len({(i.rule, i.where, i.construct) for i in ctx.instances if i.nontrivial})
    obligations = len(ctx.instances)
    discharged = sum(1 for i in ctx.instances if i.ok)
    coverage: Dict[str, Any] = {
        "explanation": "static analysis of /repo/src/hypercorn (python ast; no repository code executed). Rules applied: "
        + " | ".join(f"{rid}: {txt}" for rid, txt in sorted(ctx.rules.items())),
        "evaluations": obligations,
        "distinct_nontrivial": distinct,
        "rule": "one evaluation = one rule instance (rule, function, construct) found in the current source and decided; "
        "non-trivial = the analysed construct exists and at least one path/site/abstract state was examined; distinct by (rule, qualname, construct)",
        "obligations": obligations,
        "discharged": discharged,
        "samples": ctx.samples[:40],
        "per_rule_instances": counts,
        "analysed_modules": len(ctx.repo.modules),
        "source_digest": ctx.repo.digest(),
        "canonicalisation": getattr(ctx.repo, "canon_stats", {}),
        "known_findings_reported": [
            {"rule": f.rule, "where": f.where, "construct": f.construct} for f in known_hits
        ],
        "exhaustive": False,
    }
    if ctx.states:
        coverage["states"] = ctx.states
        coverage["transitions"] = ctx.transitions
    coverage.update(ctx.extra)
    evidence = {
        "property_id": prop,
        "tier": ctx.tier,
        "seed": seed,
        "level": "other",
        "coverage": coverage,
        "assumptions": ctx.assumptions,
        "wall_s": round(wall, 3),
        "violations": len(violations),
    }
    evdir = (VERIF / "out" / "scratch-evidence") if scratch else (VERIF / "evidence")
    evdir.mkdir(parents=True, exist_ok=True)
    (evdir / f"{prop}.json").write_text(json.dumps(evidence, indent=1, default=str) + "\n")
    print(
        f"SUMMARY property={prop} tier={ctx.tier} rules={len(ctx.rules)} instances={obligations} "
        f"discharged={discharged} known={len(known_hits)} violations={len(violations)} wall={wall:.2f}s"
    )
    return 1 if violations else 0
