"""Typestate analysis of the two stream state machines (DESIGN 4.D).

An abstract interpreter over the AST of HTTPStream and WSStream.  No repository code is
executed: statements are interpreted on an abstract store (enum state, closed flag, a few
attribute kinds, ghost counters); library objects are opaque; nondeterminism (library calls
that may raise, opaque conditions) is enumerated through a choice sequence.  All reachable
abstract stores are explored breadth-first under every enabled input and the invariants of
C02/C03/C05/C07/C11/C12 are checked at every transition.
"""
from __future__ import annotations

import ast
from collections import deque
from dataclasses import dataclass, field
from typing import Any, Dict, List, Optional, Sequence, Tuple

from .astq import dotted, norm
from .core import AnalysisError, Ctx, Repo
from .pred import Unknown, _Raised, eval_function


# ----------------------------------------------------------------------------- abstract values


class _Unset:
    def __repr__(self) -> str:
        return "UNSET"

    def __deepcopy__(self, memo):
        return self

    def __copy__(self):
        return self


UNSET = _Unset()


class Opaque:
    def __init__(self, tag: str = "") -> None:
        self.tag = tag

    def __repr__(self) -> str:
        return f"Opaque({self.tag})"


class Callable_:
    def __init__(self, tag: str) -> None:
        self.tag = tag

    def __repr__(self) -> str:
        return f"<{self.tag}>"


@dataclass
class Obj:
    cls: str
    fields: Dict[str, Any] = field(default_factory=dict)

    def __repr__(self) -> str:
        return f"{self.cls}({', '.join(f'{k}={v!r}' for k, v in self.fields.items() if k != 'stream_id')})"


@dataclass(frozen=True)
class EnumVal:
    enum: str
    member: str

    def __repr__(self) -> str:
        return f"{self.enum}.{self.member}"


class Raised(Exception):
    def __init__(self, exc: str, where: int = 0, detail: str = "") -> None:
        super().__init__(exc)
        self.exc = exc
        self.where = where
        self.detail = detail
        self.site = ""


class _Return(Exception):
    def __init__(self, value: Any) -> None:
        self.value = value


class _Break(Exception):
    pass


class _Continue(Exception):
    pass


class Chooser:
    """Replays a prefix of choices and records the arity of every choice point."""

    def __init__(self, prefix: Sequence[int]) -> None:
        self.prefix = list(prefix)
        self.taken: List[int] = []
        self.arity: List[int] = []

    def choose(self, n: int) -> int:
        i = len(self.taken)
        c = self.prefix[i] if i < len(self.prefix) else 0
        self.taken.append(c)
        self.arity.append(n)
        return c


EVENT_CLASSES = {"Request", "Body", "EndBody", "Trailers", "Data", "EndData", "Response", "InformationalResponse", "StreamClosed"}
WS_EVENT_CLASSES = {"Message", "BytesMessage", "TextMessage", "Ping", "CloseConnection"}
CLOSE_CODES = {"NORMAL_CLOSURE": 1000, "ABNORMAL_CLOSURE": 1006, "INTERNAL_ERROR": 1011, "MESSAGE_TOO_BIG": 1009}


class Machine:
    def __init__(self, repo: Repo, module: str, cls: str, params: Dict[str, Any]) -> None:
        self.repo = repo
        self.module = module
        self.cls = cls
        self.params = params
        self.methods = repo.methods(module, cls)
        self.consts: Dict[str, Any] = {}
        self.enums: Dict[str, List[str]] = {}
        tree = repo.module(module).tree
        for s in tree.body:
            if isinstance(s, ast.ClassDef) and any(dotted(b) == "Enum" for b in s.bases):
                self.enums[s.name] = [t.id for n in s.body if isinstance(n, ast.Assign) for t in n.targets if isinstance(t, ast.Name)]
            if isinstance(s, ast.Assign) and isinstance(s.targets[0], ast.Name) and isinstance(s.value, ast.Set):
                try:
                    self.consts[s.targets[0].id] = {e.value for e in s.value.elts}
                except AttributeError:
                    pass
        self.suppress_body = repo.func("utils", "suppress_body")
        self.unknown_calls: Dict[str, int] = {}

    # ------------------------------------------------------------------ running one input
    def call(self, store: Dict[str, Any], method: str, args: List[Any], chooser: Chooser) -> Tuple[str, Any]:
        self.store = store
        self.trace: List[Tuple[str, Any, int]] = []
        self.chooser = chooser
        self.depth = 0
        self.stack: List[str] = []
        self.cur: Optional[ast.stmt] = None
        try:
            self._invoke(method, args)
            return ("ok", None)
        except Raised as r:
            return ("raise", r)

    def site(self) -> str:
        """Where something happened, for finding keys: class and method only - never statement
        text or a position, so that a reformatted / renamed / restructured statement keeps its key."""
        m = self.stack[-1] if self.stack else "?"
        txt = norm(self.cur).splitlines()[0][:72] if self.cur is not None else ""
        return DK(f"{self.cls}.{m}", f"{self.cls}.{m}: {txt}")

    def arm(self) -> str:
        """Test of the innermost if/elif arm containing the current statement."""
        from .astq import ancestors

        if self.cur is None:
            return ""
        for a in ancestors(self.cur):
            if isinstance(a, ast.If):
                return norm(a.test)[:80]
            if isinstance(a, (ast.FunctionDef, ast.AsyncFunctionDef)):
                break
        return ""

    def _invoke(self, method: str, args: List[Any]) -> Any:
        fn = self.methods.get(method)
        if fn is None:
            raise AnalysisError(f"{self.cls}.{method} not found")
        self.depth += 1
        if self.depth > 12:
            raise AnalysisError(f"typestate: recursion too deep in {self.cls}.{method}")
        params = [a.arg for a in fn.args.args][1:]
        env: Dict[str, Any] = {}
        defaults = fn.args.defaults
        for i, p in enumerate(params):
            if i < len(args):
                env[p] = args[i]
            else:
                d_i = i - (len(params) - len(defaults))
                env[p] = self.ev(defaults[d_i], {}) if 0 <= d_i < len(defaults) else Opaque(p)
        self.stack.append(method)
        saved = self.cur
        try:
            self.block(fn.body, env)
            return None
        except _Return as r:
            return r.value
        finally:
            self.depth -= 1
            self.stack.pop()
            self.cur = saved

    # ------------------------------------------------------------------ effects
    def effect(self, kind: str, what: Any, line: int) -> None:
        self.trace.append((kind, what, line, self.site()))
        g = self.store["#"]
        if kind == "emit":
            name = what.cls
            if g["sc_out"]:
                g["emit_after_sc"] = True
            if name == "Response":
                g["n_head"] = min(2, g["n_head"] + 1)
                if g["n_end"] > 0:
                    g["grammar"] = g["grammar"] or "Response after EndBody"
            elif name == "InformationalResponse":
                if g["n_head"] > 0:
                    g["grammar"] = g["grammar"] or "InformationalResponse after the final head"
            elif name == "Body":
                if g["n_head"] == 0:
                    g["grammar"] = g["grammar"] or "Body before Response"
                if g["n_end"] > 0:
                    g["grammar"] = g["grammar"] or "Body after EndBody"
            elif name == "Trailers":
                if g["n_head"] == 0 or g["n_end"] > 0:
                    g["grammar"] = g["grammar"] or "Trailers outside a response"
            elif name == "EndBody":
                if g["n_head"] == 0:
                    g["grammar"] = g["grammar"] or "EndBody before any response head"
                g["n_end"] = min(2, g["n_end"] + 1)
            elif name == "StreamClosed":
                g["sc_out"] = min(2, g["sc_out"] + 1)
                # protocol echo: _close_stream hands StreamClosed back to the stream, then forgets it
                if not g["proto_dropped"]:
                    g["proto_dropped"] = True
                    self._invoke("handle", [Obj("StreamClosed", {"stream_id": 1})])
        elif kind == "put":
            if g["n_disc"] > 0:
                g["put_after_disc"] = True
            if isinstance(what, str) and what.endswith("disconnect"):
                g["n_disc"] = min(2, g["n_disc"] + 1)
            if g["n_spawn"] > 0 and g["first_put"] is None:
                g["first_put"] = what
        elif kind == "access":
            g["n_access"] = min(2, g["n_access"] + 1)
        elif kind == "spawn":
            g["n_spawn"] = min(2, g["n_spawn"] + 1)

    # ------------------------------------------------------------------ statements
    def block(self, stmts: Sequence[ast.stmt], env: Dict[str, Any]) -> None:
        for s in stmts:
            self.stmt(s, env)

    def stmt(self, s: ast.stmt, env: Dict[str, Any]) -> None:
        if not isinstance(s, (ast.If, ast.For, ast.AsyncFor, ast.While, ast.Try)):
            self.cur = s
        try:
            self._stmt(s, env)
        except Raised as r:
            if not r.site:
                if isinstance(s, (ast.If, ast.While)):
                    self.cur = s
                r.site = self.site() if not isinstance(s, (ast.If, ast.While)) else DK(str(self.site()), f"{self.cls}.{self.stack[-1] if self.stack else '?'}: if {norm(s.test)[:60]}")
            raise

    def _stmt(self, s: ast.stmt, env: Dict[str, Any]) -> None:
        if isinstance(s, ast.Expr):
            self.ev(s.value, env)
        elif isinstance(s, ast.Assign):
            v = self.ev(s.value, env)
            for t in s.targets:
                self.assign(t, v, env)
        elif isinstance(s, ast.AnnAssign):
            if s.value is not None:
                self.assign(s.target, self.ev(s.value, env), env)
        elif isinstance(s, ast.AugAssign):
            cur = self.ev(s.target, env)
            val = self.ev(s.value, env)
            try:
                new = cur + val if isinstance(s.op, ast.Add) else Opaque("aug")
            except TypeError:
                new = Opaque("aug")
            self.assign(s.target, new, env)
        elif isinstance(s, ast.If):
            if self.truth(self.ev(s.test, env)):
                self.block(s.body, env)
            else:
                self.block(s.orelse, env)
        elif isinstance(s, (ast.For, ast.AsyncFor)):
            it = self.ev(s.iter, env)
            if isinstance(it, Opaque):
                n = self.chooser.choose(2)
                items = [Opaque("item")] * n
            else:
                items = list(it)
            broke = False
            for item in items:
                self.assign(s.target, item, env)
                try:
                    self.block(s.body, env)
                except _Break:
                    broke = True
                    break
                except _Continue:
                    continue
            if not broke:
                self.block(s.orelse, env)
        elif isinstance(s, ast.While):
            n = 0
            while self.truth(self.ev(s.test, env)):
                n += 1
                if n > 3:
                    break
                try:
                    self.block(s.body, env)
                except _Break:
                    break
                except _Continue:
                    continue
        elif isinstance(s, ast.Try):
            try:
                self.block(s.body, env)
            except Raised as r:
                for h in s.handlers:
                    if self.handler_matches(h, r):
                        if h.name:
                            env[h.name] = Opaque("exc")
                        try:
                            self.block(h.body, env)
                        finally:
                            pass
                        break
                else:
                    self.block(s.finalbody, env)
                    raise
            else:
                self.block(s.orelse, env)
            self.block(s.finalbody, env)
        elif isinstance(s, ast.Raise):
            if s.exc is None:
                raise Raised("reraise", s.lineno)
            target = s.exc.func if isinstance(s.exc, ast.Call) else s.exc
            raise Raised((dotted(target) or "Exception").split(".")[-1], s.lineno)
        elif isinstance(s, ast.Return):
            raise _Return(self.ev(s.value, env) if s.value is not None else None)
        elif isinstance(s, ast.Break):
            raise _Break()
        elif isinstance(s, ast.Continue):
            raise _Continue()
        elif isinstance(s, (ast.Pass, ast.FunctionDef, ast.AsyncFunctionDef)):
            pass
        else:
            raise AnalysisError(f"typestate: unsupported statement {type(s).__name__} in {self.cls} line {s.lineno}")

    def handler_matches(self, h: ast.ExceptHandler, r: Raised) -> bool:
        if h.type is None:
            return True
        names = {(dotted(t) or "").split(".")[-1] for t in (h.type.elts if isinstance(h.type, ast.Tuple) else [h.type])}
        if r.exc in names:
            return True
        return bool(names & {"Exception", "BaseException"})

    def assign(self, target: ast.AST, value: Any, env: Dict[str, Any]) -> None:
        if isinstance(target, ast.Name):
            env[target.id] = value
        elif isinstance(target, ast.Attribute) and isinstance(target.value, ast.Name) and target.value.id == "self":
            if target.attr == "closed" and value is True and self.store.get("closed") is not True and "#" in self.store:
                if self.store["#"].get("closed_by") is None:
                    self.store["#"]["closed_by"] = DK(f"{self.cls}.{self.stack[0] if self.stack else '?'} handling {self.cur_label} in state {self.cur_pre_state}", f"{self.cls}.{self.stack[-1] if self.stack else '?'} arm [{self.arm()}]")
            self.store[target.attr] = value
        elif isinstance(target, (ast.Tuple, ast.List)):
            if isinstance(value, Opaque):
                for t in target.elts:
                    self.assign(t, Opaque(value.tag), env)
            else:
                vals = list(value)
                if len(vals) != len(target.elts):
                    raise Raised("ValueError", getattr(target, "lineno", 0))
                for t, v in zip(target.elts, vals):
                    self.assign(t, v, env)
        elif isinstance(target, ast.Subscript):
            base = self.ev(target.value, env)
            if isinstance(base, dict):
                key = self.ev(target.slice, env)
                if not isinstance(key, (Opaque, Obj)):
                    base[key] = value
        elif isinstance(target, ast.Attribute):
            base = self.ev(target.value, env)
            if isinstance(base, Obj):
                base.fields[target.attr] = value
        else:
            raise AnalysisError(f"typestate: unsupported assignment target {norm(target)}")

    def truth(self, v: Any) -> bool:
        if isinstance(v, Opaque):
            return bool(self.chooser.choose(2))
        if v is UNSET:
            return False
        if isinstance(v, (Obj, Callable_, EnumVal)):
            return True
        return bool(v)

    # ------------------------------------------------------------------ expressions
    def ev(self, e: ast.AST, env: Dict[str, Any]) -> Any:
        if isinstance(e, ast.Await):
            return self.ev(e.value, env)
        if isinstance(e, ast.Constant):
            return e.value
        if isinstance(e, ast.Name):
            if e.id in env:
                return env[e.id]
            if e.id in self.consts:
                return self.consts[e.id]
            if e.id in ("True", "False", "None"):
                return {"True": True, "False": False, "None": None}[e.id]
            return Opaque(e.id)
        if isinstance(e, ast.Attribute):
            return self.attr(e, env)
        if isinstance(e, ast.Subscript):
            base = self.ev(e.value, env)
            key = self.ev(e.slice, env) if not isinstance(e.slice, ast.Slice) else None
            if isinstance(base, dict) and not isinstance(key, (Opaque, Obj)):
                if key in base:
                    return base[key]
                raise Raised("KeyError", e.lineno, norm(e))
            if isinstance(base, (list, tuple, bytes, str)) and isinstance(key, int):
                try:
                    return base[key]
                except IndexError:
                    raise Raised("IndexError", e.lineno)
            return Opaque("subscript")
        if isinstance(e, ast.Call):
            return self.callx(e, env)
        if isinstance(e, ast.Compare):
            left = self.ev(e.left, env)
            result: Any = True
            for op, c in zip(e.ops, e.comparators):
                right = self.ev(c, env)
                r = self.compare(op, left, right)
                if isinstance(r, Opaque):
                    return r
                if not r:
                    return False
                left = right
            return result
        if isinstance(e, ast.BoolOp):
            if isinstance(e.op, ast.And):
                v: Any = True
                for x in e.values:
                    v = self.ev(x, env)
                    if not self.truth(v):
                        return v if not isinstance(v, Opaque) else False
                return v
            v = False
            for x in e.values:
                v = self.ev(x, env)
                if self.truth(v):
                    return v if not isinstance(v, Opaque) else True
            return v
        if isinstance(e, ast.UnaryOp):
            v = self.ev(e.operand, env)
            if isinstance(e.op, ast.Not):
                return not self.truth(v)
            return Opaque("unary")
        if isinstance(e, ast.BinOp):
            l, r = self.ev(e.left, env), self.ev(e.right, env)
            if isinstance(l, (Opaque, Obj)) or isinstance(r, (Opaque, Obj)) or l is UNSET or r is UNSET:
                return Opaque("binop")
            try:
                if isinstance(e.op, ast.Add):
                    return l + r
                if isinstance(e.op, ast.Sub):
                    return l - r
                if isinstance(e.op, ast.Mod):
                    return l % r
            except Exception:
                return Opaque("binop")
            return Opaque("binop")
        if isinstance(e, ast.IfExp):
            return self.ev(e.body, env) if self.truth(self.ev(e.test, env)) else self.ev(e.orelse, env)
        if isinstance(e, ast.Dict):
            return {self.ev(k, env): self.ev(v, env) for k, v in zip(e.keys, e.values) if k is not None}
        if isinstance(e, (ast.List, ast.Tuple)):
            vals = [self.ev(x, env) for x in e.elts]
            return vals if isinstance(e, ast.List) else tuple(vals)
        if isinstance(e, ast.Set):
            return {self.ev(x, env) for x in e.elts}
        if isinstance(e, ast.JoinedStr):
            for v in e.values:
                if isinstance(v, ast.FormattedValue):
                    self.ev(v.value, env)
            return Opaque("str")
        if isinstance(e, (ast.ListComp, ast.GeneratorExp, ast.SetComp, ast.DictComp)):
            for g in e.generators:
                self.ev(g.iter, env)
            return Opaque("comp")
        raise AnalysisError(f"typestate: unsupported expression {type(e).__name__} `{norm(e)[:50]}` in {self.cls}")

    def compare(self, op: ast.cmpop, l: Any, r: Any) -> Any:
        if isinstance(op, (ast.Is, ast.IsNot)):
            if l is UNSET or r is UNSET:
                raise Raised("AttributeError", 0)
            if isinstance(l, Opaque) or isinstance(r, Opaque):
                if r is None and isinstance(l, Opaque):
                    return Opaque("isnone")
                return Opaque("is")
            same = (l is r) or (l == r and type(l) is type(r) and not isinstance(l, (dict, list)))
            return same if isinstance(op, ast.Is) else not same
        if isinstance(l, Opaque) or isinstance(r, Opaque):
            return Opaque("cmp")
        if isinstance(op, ast.Eq):
            return l == r
        if isinstance(op, ast.NotEq):
            return l != r
        if isinstance(op, ast.In):
            try:
                return l in r
            except TypeError:
                return Opaque("in")
        if isinstance(op, ast.NotIn):
            try:
                return l not in r
            except TypeError:
                return Opaque("in")
        try:
            if isinstance(op, ast.Lt):
                return l < r
            if isinstance(op, ast.LtE):
                return l <= r
            if isinstance(op, ast.Gt):
                return l > r
            if isinstance(op, ast.GtE):
                return l >= r
        except TypeError:
            return Opaque("cmp")
        return Opaque("cmp")

    def attr(self, e: ast.Attribute, env: Dict[str, Any]) -> Any:
        d = dotted(e)
        if d:
            parts = d.split(".")
            if parts[0] in self.enums and len(parts) == 2:
                return EnumVal(parts[0], parts[1])
            if parts[0] == "CloseReason" and len(parts) >= 2:
                return CLOSE_CODES.get(parts[1], Opaque(d))
            if parts[0] == "ConnectionState":
                return Opaque(d)
        if isinstance(e.value, ast.Name) and e.value.id == "self":
            if e.attr not in self.store:
                return Opaque(f"self.{e.attr}")
            v = self.store[e.attr]
            if v is UNSET:
                raise Raised("AttributeError", e.lineno, f"self.{e.attr} is read before it was ever assigned")
            return v
        base = self.ev(e.value, env)
        if base is UNSET:
            raise Raised("AttributeError", e.lineno)
        if isinstance(base, Obj):
            if e.attr in base.fields:
                return base.fields[e.attr]
            return Opaque(f"{base.cls}.{e.attr}")
        if base is None:
            raise Raised("AttributeError", e.lineno, f"None.{e.attr}")
        if isinstance(base, int) and e.attr == "value":
            return base
        return Opaque(f".{e.attr}")

    def callx(self, e: ast.Call, env: Dict[str, Any]) -> Any:
        f = e.func
        d = dotted(f) or ""
        line = e.lineno
        # ---- own methods and collaborators
        if d.startswith("self.") and d.count(".") == 1:
            name = d.split(".")[1]
            if name == "send":
                ev_ = self.ev(e.args[0], env)
                if not isinstance(ev_, Obj):
                    raise AnalysisError(f"typestate: self.send argument is not an event at line {line}")
                self.effect("emit", ev_, line)
                return None
            if name == "app_put":
                target = self.store.get("app_put", UNSET)
                msg = self.ev(e.args[0], env)
                if target is UNSET:
                    raise Raised("AttributeError", line, "self.app_put is read before it was ever assigned")
                if target is None:
                    raise Raised("TypeError", line, "self.app_put is None")
                self.effect("put", msg.get("type") if isinstance(msg, dict) else "?", line)
                return None
            if name in self.methods:
                args = [self.ev(a, env) for a in e.args]
                return self._invoke(name, args)
        if d == "self.task_group.spawn_app":
            for a in e.args:
                self.ev(a, env)
            self.effect("spawn", None, line)
            return Callable_("app_put")
        if d == "self.task_group.spawn":
            return None
        if d == "self.config.log.access":
            for a in e.args:
                self.ev(a, env)
            self.effect("access", None, line)
            return None
        if d.startswith("self.config.log."):
            return None
        if d == "self.context.sleep":
            return None
        if d == "time":
            return Opaque("time")
        if d == "valid_server_name":
            return bool(self.cur_input.get("server_ok", True))
        if d == "Handshake":
            return Obj("Handshake", {"accepted": False, "subprotocols": Opaque("subprotocols")})
        if d == "WebsocketBuffer":
            return Obj("WebsocketBuffer", {})
        if d == "self.handshake.is_valid":
            return bool(self.cur_input.get("hs_valid", True))
        if d == "self.handshake.accept":
            hs = self.attr(f.value, env) if isinstance(f, ast.Attribute) else None
            args = [self.ev(a, env) for a in e.args]
            if any(isinstance(a, Opaque) and a.tag == "bad" for a in args):
                raise Raised("Exception", line, "Handshake.accept rejects the subprotocol / headers")
            hs.fields["accepted"] = True
            return (101 if self.params.get("http_version") == "1.1" else 200, Opaque("headers"), Obj("Connection", {}))
        if d == "build_and_validate_headers":
            a = self.ev(e.args[0], env)
            if isinstance(a, Opaque) and a.tag == "bad":
                raise Raised("ValueError", line, "build_and_validate_headers rejects the headers")
            if isinstance(a, list) and any(isinstance(x, Opaque) and x.tag == "bad" for x in a):
                raise Raised("ValueError", line)
            return a if isinstance(a, list) else Opaque("headers")
        if d == "suppress_body":
            args = [self.ev(a, env) for a in e.args]
            if all(isinstance(a, (str, int)) for a in args) and len(args) == 2:
                try:
                    return bool(eval_function(self.suppress_body, dict(zip([p.arg for p in self.suppress_body.args.args], args))))
                except _Raised as r_:
                    if "TypeError" in str(r_):
                        raise Raised("TypeError", line, "suppress_body: status is not an int")
                    return Opaque("suppress")
                except Unknown:
                    return Opaque("suppress")
            return Opaque("suppress")
        if d == "isinstance" and len(e.args) == 2:
            v = self.ev(e.args[0], env)
            names = [(dotted(t) or "?").split(".")[-1] for t in (e.args[1].elts if isinstance(e.args[1], ast.Tuple) else [e.args[1]])]
            if isinstance(v, Obj):
                sup = {"BytesMessage": "Message", "TextMessage": "Message"}
                return v.cls in names or sup.get(v.cls) in names
            if isinstance(v, Opaque):
                if v.tag.startswith("type:"):
                    return v.tag[5:] in names
                return Opaque("isinstance")
            py = {"str": str, "bytes": bytes, "int": int, "dict": dict, "list": list}
            return any(n in py and isinstance(v, py[n]) for n in names)
        if d == "int":
            v = self.ev(e.args[0], env)
            if isinstance(v, (int, str)) and not isinstance(v, bool):
                try:
                    return int(v)
                except ValueError:
                    raise Raised("ValueError", line)
            return v if isinstance(v, int) else Opaque("int")
        if d == "bytes":
            v = self.ev(e.args[0], env)
            if isinstance(v, (bytes, bytearray)):
                return bytes(v)
            if isinstance(v, str):
                raise Raised("TypeError", line)
            return Opaque("bytes")
        if d in ("unquote", "str", "len"):
            for a in e.args:
                self.ev(a, env)
            return Opaque(d)
        if d.split(".")[-1] in EVENT_CLASSES or d.split(".")[-1] in WS_EVENT_CLASSES or d in ("CloseConnection", "Ping"):
            fields = {k.arg: self.ev(k.value, env) for k in e.keywords if k.arg}
            for a in e.args:
                self.ev(a, env)
            return Obj(d.split(".")[-1], fields)
        if d in ("UnexpectedMessageError", "TypeError", "Exception", "ValueError"):
            return Obj(d, {})
        # ---- methods on values
        if isinstance(f, ast.Attribute):
            recv_d = dotted(f.value) or ""
            if recv_d == "self.connection":
                conn = self.store.get("connection", UNSET)
                if conn is UNSET:
                    raise Raised("AttributeError", line, "self.connection is used before a connection exists (handshake not accepted)")
                if f.attr == "events":
                    return list(self.cur_input.get("ws_events", []))
                if f.attr == "send":
                    for a in e.args:
                        self.ev(a, env)
                    if self.chooser.choose(2) == 1:
                        raise Raised("LocalProtocolError", line)
                    return Opaque("wire-bytes")
                return None
            if recv_d == "self.buffer":
                if f.attr == "extend":
                    ev_ = self.ev(e.args[0], env)
                    if isinstance(ev_, Obj) and ev_.fields.get("overflow"):
                        raise Raised("FrameTooLargeError", line)
                    return None
                if f.attr == "to_message":
                    return {"type": "websocket.receive"}
                return None
            base = self.ev(f.value, env)
            args = [self.ev(a, env) for a in e.args]
            if base is UNSET:
                raise Raised("AttributeError", line)
            if base is None:
                raise Raised("AttributeError", line, f"None.{f.attr}()")
            if isinstance(base, dict):
                if f.attr == "get":
                    k = args[0]
                    return base.get(k, args[1] if len(args) > 1 else None)
                if f.attr in ("items", "keys", "values"):
                    return list(getattr(base, f.attr)())
                return Opaque("dict." + f.attr)
            if isinstance(base, list) and f.attr in ("append", "extend"):
                if f.attr == "append":
                    base.append(args[0])
                elif isinstance(args[0], list):
                    base.extend(args[0])
                else:
                    base.append(args[0])
                return None
            if isinstance(base, (bytes, str)) and f.attr == "partition" and args and not isinstance(args[0], Opaque):
                return base.partition(args[0])
            if isinstance(base, (bytes, str)) and f.attr in ("encode", "decode", "strip", "lower", "upper") and all(not isinstance(a, Opaque) for a in args):
                try:
                    return getattr(base, f.attr)(*args)
                except Exception:
                    raise Raised("UnicodeError", line)
            if isinstance(base, Opaque) and f.attr == "partition":
                return (Opaque("path"), Opaque("sep"), Opaque("query"))
            if isinstance(base, Obj) and f.attr == "response":
                return Obj("Pong" if base.cls == "Ping" else base.cls, {})
            return Opaque(f".{f.attr}()")
        for a in e.args:
            self.ev(a, env)
        self.unknown_calls[d or norm(f)] = self.unknown_calls.get(d or norm(f), 0) + 1
        return Opaque(f"{d}()")


# ----------------------------------------------------------------------------- exploration


def _canon(v: Any) -> Any:
    if v is UNSET:
        return "UNSET"
    if isinstance(v, Opaque):
        return "opaque"
    if isinstance(v, Callable_):
        return "callable"
    if isinstance(v, EnumVal):
        return v.member
    if isinstance(v, Obj):
        if v.cls == "Handshake":
            return ("hs", bool(v.fields.get("accepted")))
        return v.cls
    if isinstance(v, dict):
        hd = v.get("headers")
        return ("dict", _canon(v.get("status")), bool(v.get("trailers", False)) if not isinstance(v.get("trailers", False), Opaque) else "opaque", _canon(v.get("type")), "bad-headers" if isinstance(hd, Opaque) and hd.tag == "bad" else "headers")
    if isinstance(v, (list, tuple, set)):
        return "seq"
    return v


TRACKED = ["state", "closed", "app_put", "response", "connection", "handshake", "scope"]
GHOST0 = {"n_spawn": 0, "n_disc": 0, "n_access": 0, "n_head": 0, "n_end": 0, "sc_out": 0, "proto_dropped": False, "app_done": False, "put_after_disc": False, "emit_after_sc": False, "first_put": None, "grammar": None, "saw_request": False, "closed_by": None}


def store_key(store: Dict[str, Any]) -> Tuple:
    return tuple((k, _canon(store.get(k, "absent"))) for k in TRACKED) + tuple(sorted((k, v) for k, v in store["#"].items() if v is None or not isinstance(v, str) or k != "x"))


def copy_store(store: Dict[str, Any]) -> Dict[str, Any]:
    import copy

    return copy.deepcopy(store)


def summary(store: Dict[str, Any]) -> str:
    g = store["#"]
    st = _canon(store.get("state"))
    return f"state={st} closed={store.get('closed')} spawned={g['n_spawn']} head={g['n_head']} ended={g['n_end']} proto_gone={g['proto_dropped']} app_done={g['app_done']}"


KEY_LOG: Optional[List[Tuple[str, str, str, str]]] = [] if __import__("os").environ.get("HCVERIF_TS_KEYLOG") else None


class DK(str):
    """Transitional dual key: the string is the current (semantic) key fragment, `.old` the
    former statement-text fragment; used once to re-key known_findings.json exactly."""

    old: str = ""

    def __new__(cls, new: str, old: str):  # type: ignore[no-untyped-def]
        o = super().__new__(cls, new)
        o.old = old
        return o

    def __deepcopy__(self, memo):  # type: ignore[no-untyped-def]
        return self

    def __copy__(self):  # type: ignore[no-untyped-def]
        return self


def _old(x: Any) -> str:
    return x.old if isinstance(x, DK) else str(x)


def KX(mtype: str, pre_state: str) -> DK:
    return DK(f" ({mtype} in {pre_state})", "")


@dataclass
class TSViolation:
    rule: str
    cls: str
    construct: str
    what: str
    word: List[str]
    line: int


class Explorer:
    def __init__(self, repo: Repo, module: str, cls: str, params: Dict[str, Any], inputs) -> None:
        self.repo = repo
        self.m = Machine(repo, module, cls, params)
        self.cls = cls
        self.module = module
        self.params = params
        self.inputs = inputs
        self.violations: Dict[Tuple[str, str], TSViolation] = {}
        self.states = 0
        self.transitions = 0
        self.sample_words: List[List[str]] = []

    def initial(self) -> Dict[str, Any]:
        store: Dict[str, Any] = {"#": dict(GHOST0)}
        init = self.m.methods["__init__"]
        # annotation-only declarations are UNSET until assigned
        for n in ast.walk(init):
            if isinstance(n, ast.AnnAssign) and n.value is None and isinstance(n.target, ast.Attribute):
                store[n.target.attr] = UNSET
        m = self.m
        m.cur_input = {}
        args = []
        for a in init.args.args[1:]:
            if a.arg == "ssl":
                args.append(False)
            elif a.arg == "stream_id":
                args.append(1)
            elif a.arg == "config":
                args.append(Opaque("config"))
            else:
                args.append(Opaque(a.arg))
        out, r = m.call(store, "__init__", args, Chooser([]))
        if out != "ok":
            raise AnalysisError(f"typestate: {self.cls}.__init__ raised {r.exc}")
        if "closed" not in store or "state" not in store:
            raise AnalysisError(f"typestate: {self.cls}.__init__ does not initialise state/closed (role binding lost)")
        return store

    def report(self, rule: str, construct: Any, what: str, word: List[str], line: int = 0) -> None:
        if isinstance(construct, (list, tuple)):
            parts = construct
            construct = "".join(str(p_) for p_ in parts)
            if KEY_LOG is not None:
                KEY_LOG.append((self.cls, rule, "".join(_old(p_) for p_ in parts), construct))
        elif KEY_LOG is not None:
            KEY_LOG.append((self.cls, rule, construct, construct))
        k = (rule, construct)
        if k not in self.violations:
            self.violations[k] = TSViolation(rule, self.cls, construct, what, list(word), line)

    def explore(self, limit: int = 60000) -> None:
        s0 = self.initial()
        seen = {store_key(s0): []}
        dq = deque([s0])
        while dq:
            store = dq.popleft()
            word = seen[store_key(store)]
            self.states += 1
            if self.states > limit:
                raise AnalysisError(f"typestate: state limit exceeded for {self.cls}")
            self.check_quiescent(store, word)
            for label, method, args, meta in self.inputs(store, self.params):
                # enumerate all choice sequences for this input
                pending: List[List[int]] = [[]]
                while pending:
                    prefix = pending.pop()
                    st2 = copy_store(store)
                    ch = Chooser(prefix)
                    self.m.cur_input = meta
                    self.m.cur_label = label.split("(")[0]
                    self.m.cur_pre_state = _canon(store.get("state"))
                    pre = copy_store(store)
                    if meta.get("kind") == "proto" and label.startswith("StreamClosed"):
                        st2["#"]["proto_dropped"] = True
                    if label.startswith("Request"):
                        st2["#"]["saw_request"] = True
                    outcome, r = self.m.call(st2, method, [a() if callable(a) else a for a in args], ch)
                    if meta.get("kind") == "app" and label == "None":
                        st2["#"]["app_done"] = True
                    trace = self.m.trace
                    self.transitions += 1
                    for i in range(len(ch.taken), len(ch.arity)):
                        pass
                    # schedule alternative choices
                    for i in range(len(prefix), len(ch.taken)):
                        for alt in range(1, ch.arity[i]):
                            if ch.taken[i] == 0:
                                pending.append(ch.taken[:i] + [alt])
                    self.check_transition(pre, st2, label, meta, outcome, r, trace, word + [label])
                    if outcome == "raise" and meta.get("kind") == "app" and label != "None":
                        # the error goes to the application; the stream continues from the resulting store
                        pass
                    k = store_key(st2)
                    if k not in seen:
                        seen[k] = word + [label]
                        dq.append(st2)
                        if len(self.sample_words) < 6 and len(word) >= 2:
                            self.sample_words.append(word + [label])

    # ------------------------------------------------------------------ invariants
    def check_transition(self, pre, post, label, meta, outcome, r, trace, word) -> None:
        g0, g = pre["#"], post["#"]
        emits = [t[1].cls for t in trace if t[0] == "emit"]
        puts = [t[1] for t in trace if t[0] == "put"]
        line = trace[-1][2] if trace else (r.where if r else 0)
        kind = meta.get("kind")
        mtype = label.split("(")[0]
        pre_state = _canon(pre.get("state"))

        def last_site(k: str, pred=None) -> str:
            for t in reversed(trace):
                if t[0] == k and (pred is None or pred(t)):
                    return t[3]
            return "?"

        # ---- exceptions
        if outcome == "raise":
            if kind == "proto" or label == "None":
                self.report("escape", [f"{r.exc} at ", r.site], f"{self.cls}: {r.exc} escapes {'handle(' + mtype + ')' if kind == 'proto' else 'app_send(None)'} in state {pre_state} ({r.detail or 'line ' + str(r.where)}): an internal error on the connection's task", word, r.where)
            else:
                if emits or puts:
                    self.report("C12.R2", [f"{mtype} in {pre_state}: emits {'/'.join(emits or puts)} then raises {r.exc} at ", r.site], f"{self.cls}.app_send refuses {label} with {r.exc} ({r.detail or 'raise'}) after it has already emitted {emits or puts}: a rejected message has put events on the wire", word, r.where)
                changed = [k for k in TRACKED if k not in ("response", "scope") and _canon(pre.get(k, 'absent')) != _canon(post.get(k, 'absent'))]
                if changed:
                    self.report("C12.R2", [f"{mtype} in {pre_state}: changes {'/'.join(changed)} then raises {r.exc} at ", r.site], f"{self.cls}.app_send raises {r.exc} for {label} ({r.detail or 'raise'}) but has already changed {changed}: later messages and the application's exit take the wrong arm", word, r.where)
        # ---- the last body message ends the response
        if self.cls == "HTTPStream" and kind == "app" and mtype == "http.response.body" and "more_body=False" in label and pre_state == "RESPONSE" and outcome == "ok" and pre.get("closed") is not True:
            resp = pre.get("response")
            wants_trailers = isinstance(resp, dict) and resp.get("trailers", False) is True
            if not wants_trailers and "EndBody" not in emits:
                status = resp.get("status") if isinstance(resp, dict) else "?"
                self.report("C02.R1", f"last body message does not end the response (status {status}, method {self.params.get('method')})", f"{self.cls}: http.response.body with more_body=False (status {status}, {self.params.get('method')} request) emitted {emits}: the response is never ended (no EndBody / StreamClosed)", word, line)
        # ---- every accepted body message puts its data on the wire (unless the status / method suppresses bodies)
        body_msg = (self.cls == "HTTPStream" and mtype == "http.response.body" and "body=data" in label and pre_state == "RESPONSE") or (self.cls == "WSStream" and mtype == "websocket.http.response.body" and pre_state in ("HANDSHAKE", "RESPONSE"))
        if body_msg and kind == "app" and outcome == "ok" and pre.get("closed") is not True:
            resp = pre.get("response")
            status = resp.get("status") if isinstance(resp, dict) else None
            method = self.params.get("method", "GET") if self.cls == "HTTPStream" else "GET"
            if isinstance(status, int):
                suppressed = method == "HEAD" or 100 <= status < 200 or status in (204, 304)
                if not suppressed and "Body" not in emits:
                    self.report("C02.R11", f"{mtype} in {pre_state} (status {status}) emits no Body", f"{self.cls}: {label} accepted in state {pre_state} for a {status} response emitted {emits}: the chunk never reaches the client (truncated body)", word, line)
                if suppressed and "Body" in emits:
                    self.report("C02.R11", f"{mtype} in {pre_state} (status {status}, {method}) emits a Body", f"{self.cls}: {label} for a response that must not carry a body ({method}, status {status}) emitted {emits}", word, line)
        # ---- anything after completion raises (HTTP; for WebSocket post-close sends are silent by C03)
        if self.cls == "HTTPStream" and kind == "app" and label != "None" and pre_state == "CLOSED" and outcome == "ok":
            self.report("C12.R1t", f"{mtype} accepted after the response was completed (state CLOSED)", f"{self.cls}.app_send accepts {label} silently although the response is complete: a message after completion must raise into the application", word, line)
        # ---- closed => app_send is a silent no-op
        if kind == "app" and pre.get("closed") is True and self.cls == "WSStream":
            if outcome == "raise" or emits or puts:
                self.report("C03.R4", f"{mtype} after close is not a no-op", f"{self.cls}.app_send after closure must be a silent no-op, but it {'raises ' + r.exc if outcome == 'raise' else 'emits ' + str(emits)}", word, line)
        # ---- counters
        if g["n_disc"] >= 2 and g0["n_disc"] < 2:
            self.report("C03.R1", ["second disconnect at ", last_site('put'), KX(mtype, pre_state)], f"{self.cls}: the application is sent a second disconnect message", word, line)
        if g["put_after_disc"] and not g0["put_after_disc"]:
            self.report("C03.R2", ["delivery after disconnect at ", last_site('put'), KX(mtype, pre_state)], f"{self.cls}: {puts} delivered to the application after its disconnect message", word, line)
        if g["n_access"] >= 2 and g0["n_access"] < 2:
            self.report("C03.R3", ["second access record at ", last_site('access'), DK(f" ({mtype} in {pre_state}, stream closed={pre.get('closed')})", f" (stream closed={pre.get('closed')}, by {_old(g0.get('closed_by')) if g0.get('closed_by') is not None else None})")], f"{self.cls}: a second access-log record is written for the same request", word, line)
        if g["n_spawn"] >= 2 and g0["n_spawn"] < 2:
            self.report("C01.R1", ["second spawn at ", last_site('spawn'), KX(mtype, pre_state)], f"{self.cls}: a second application instance is started for the same request", word, line)
        if g["n_head"] >= 2 and g0["n_head"] < 2:
            self.report("C12.R3", ["second final head at ", last_site('emit', lambda t: t[1].cls == 'Response'), KX(mtype, pre_state)], f"{self.cls}: a second final response head is emitted for the same request", word, line)
        if g["n_end"] >= 2 and g0["n_end"] < 2:
            self.report("C02.R1", ["second EndBody at ", last_site('emit', lambda t: t[1].cls == 'EndBody'), KX(mtype, pre_state)], f"{self.cls}: end-of-response is signalled twice", word, line)
        if g["grammar"] and not g0["grammar"]:
            self.report("C02.R1", [f"{g['grammar']} at ", last_site('emit'), f" ({mtype} in {pre_state})"], f"{self.cls}: emission grammar violated: {g['grammar']}", word, line)
        if g["emit_after_sc"] and not g0["emit_after_sc"]:
            self.report("C02.R1", ["emission after StreamClosed at ", last_site('emit'), KX(mtype, pre_state)], f"{self.cls}: {emits} emitted after the stream told the protocol it was closed", word, line)
        if g["sc_out"] >= 2 and g0["sc_out"] < 2:
            self.report("C05.R2", ["second StreamClosed at ", last_site('emit'), KX(mtype, pre_state)], f"{self.cls}: StreamClosed is emitted twice", word, line)
        # ---- application exit
        if kind == "app" and label == "None" and pre.get("closed") is not True and outcome == "ok":
            if g0["n_head"] == 0 and g0["n_spawn"] > 0:
                ok = emits[:2] == ["Response", "EndBody"] and "StreamClosed" in emits
                st500 = [t[1].fields.get("status_code") for t in trace if t[0] == "emit" and t[1].cls == "Response"]
                if not ok or st500[:1] != [500]:
                    if not (self.cls == "WSStream" and pre_state in ("CONNECTED", "CLOSED")):
                        self.report("C05.R2", f"no 500 on exit in state {pre_state} (ended={g0['n_end']})", f"{self.cls}: the application ended before starting a response but the stream emitted {emits} (status {st500}) instead of 500, EndBody, StreamClosed", word, line)
            elif g0["n_head"] > 0 and g0["n_end"] == 0:
                if "EndBody" in emits:
                    self.report("C05.R2", f"EndBody on abort in state {pre_state}", f"{self.cls}: the application ended mid-response and the stream completed the response (EndBody): the client sees a complete response", word, line)
            if emits.count("StreamClosed") != 1:
                self.report("C05.R2sc", f"StreamClosed x{emits.count('StreamClosed')} on exit in state {pre_state}", f"{self.cls}: application exit must emit StreamClosed exactly once, emitted {emits}", word, line)
        # ---- stream-generated final responses must end the stream
        if kind == "proto" and "Response" in emits and "EndBody" in emits and "StreamClosed" not in emits:
            status = [t[1].fields.get("status_code") for t in trace if t[0] == "emit" and t[1].cls == "Response"]
            arm = [t[3] for t in trace if t[0] == "emit" and t[1].cls == "Response"]
            self.report("C07.R2", f"error response {status} to {mtype} without StreamClosed (state {pre_state}, spawned={g0['n_spawn']})", f"{self.cls}.handle answers {label} with a complete {status} response (connection: close) but never emits StreamClosed: the protocol neither closes nor recycles the connection and no idle timer runs", word, line)
        # ---- handshake / server-name rejection
        if kind == "proto" and label.startswith("Request"):
            bad = (meta.get("server_ok") is False) or (meta.get("hs_valid") is False)
            if bad and g["n_spawn"] > 0:
                self.report("C11.R3", f"application started for a rejected request: {label}", f"{self.cls}: an application is started although the request was rejected", word, line)
            if bad:
                status = [t[1].fields.get("status_code") for t in trace if t[0] == "emit" and t[1].cls == "Response"]
                want = 404 if meta.get("server_ok") is False else 400
                if status[:1] != [want]:
                    self.report("C11.R3", f"wrong rejection status: {label}", f"{self.cls}: rejected request answered with {status}, expected {want}", word, line)
            if not bad and g["n_spawn"] != 1:
                self.report("C01.R1", f"no application for an accepted request: {label}", f"{self.cls}: accepted request did not start exactly one application (spawned {g['n_spawn']})", word, line)
            if not bad and self.cls == "WSStream" and g["first_put"] != "websocket.connect":
                self.report("C11.R4", f"first message is {g['first_put']}", f"{self.cls}: the first message to the application must be websocket.connect", word, line)

    def check_quiescent(self, store, word) -> None:
        g = store["#"]
        if not (g["proto_dropped"] and (g["app_done"] or g["n_spawn"] == 0)):
            return
        if not g["saw_request"]:
            return
        if g["n_spawn"] >= 1 and g["n_disc"] == 0:
            self.report("C03.R1", ["never disconnected: stream closed by ", g.get('closed_by') if g.get('closed_by') is not None else "None"], f"{self.cls}: protocol and application are both finished but the application was never sent a disconnect message (the stream was marked closed by {g.get('closed_by')})", word)
        if g["n_access"] == 0:
            self.report("C03.R3", [f"no access record: final state {_canon(store.get('state'))}, stream closed by ", g.get('closed_by') if g.get('closed_by') is not None else "None"], f"{self.cls}: the request ended without any access-log record", word)


# ----------------------------------------------------------------------------- input alphabets


def _hdr(ok: bool) -> Any:
    return Opaque("ok" if ok else "bad")


def http_inputs(store, params):
    g = store["#"]
    out = []
    P = {"kind": "proto"}
    A = {"kind": "app"}
    ver = params["http_version"]
    if not g["proto_dropped"]:
        if store.get("scope") is UNSET:
            hdrs = [(b"te", b"trailers")] if params.get("te") else []
            for ok in (True, False):
                out.append((f"Request(server_name_ok={ok})", "handle", [lambda hdrs=hdrs: Obj("Request", {"stream_id": 1, "headers": list(hdrs), "http_version": ver, "method": params.get("method", "GET"), "raw_path": Opaque("raw_path"), "state": Opaque("state")})], {**P, "server_ok": ok}))
        else:
            out.append(("Body", "handle", [lambda: Obj("Body", {"stream_id": 1, "data": b"x"})], P))
            out.append(("EndBody", "handle", [lambda: Obj("EndBody", {"stream_id": 1})], P))
            out.append(("StreamClosed", "handle", [lambda: Obj("StreamClosed", {"stream_id": 1})], P))
    if g["n_spawn"] > 0 and not g["app_done"]:
        for status in (200, 204):
            for tr in (False, True):
                out.append((f"http.response.start(status={status}, trailers={tr})", "app_send", [lambda s=status, t=tr: {"type": "http.response.start", "status": s, "headers": _hdr(True), "trailers": t}], A))
        out.append(("http.response.start(bad headers)", "app_send", [lambda: {"type": "http.response.start", "status": 200, "headers": _hdr(False)}], A))
        for body in (b"", b"x"):
            for more in (True, False):
                out.append((f"http.response.body(body={'empty' if not body else 'data'}, more_body={more})", "app_send", [lambda b=body, m=more: {"type": "http.response.body", "body": b, "more_body": m}], A))
        for more in (True, False):
            out.append((f"http.response.trailers(more_trailers={more})", "app_send", [lambda m=more: {"type": "http.response.trailers", "headers": _hdr(True), "more_trailers": m}], A))
        out.append(("http.response.trailers(bad headers)", "app_send", [lambda: {"type": "http.response.trailers", "headers": _hdr(False), "more_trailers": False}], A))
        out.append(("http.response.push", "app_send", [lambda: {"type": "http.response.push", "path": "/p", "headers": _hdr(True)}], A))
        out.append(("http.response.push(non-str path)", "app_send", [lambda: {"type": "http.response.push", "path": b"/p", "headers": _hdr(True)}], A))
        out.append(("http.response.push(bad headers)", "app_send", [lambda: {"type": "http.response.push", "path": "/p", "headers": _hdr(False)}], A))
        out.append(("http.response.early_hint", "app_send", [lambda: {"type": "http.response.early_hint", "links": [b"</s.css>"]}], A))
        out.append(("not_a_real_type", "app_send", [lambda: {"type": "not_a_real_type"}], A))
        out.append(("None", "app_send", [None], A))
    return out


def ws_inputs(store, params):
    g = store["#"]
    out = []
    P = {"kind": "proto"}
    A = {"kind": "app"}
    ver = params["http_version"]
    msg = lambda fin, over=False, cls="TextMessage": Obj(cls, {"data": "x", "message_finished": fin, "overflow": over})
    if not g["proto_dropped"]:
        if store.get("scope") is UNSET:
            for ok, valid in ((True, True), (False, True), (True, False)):
                out.append((f"Request(server_name_ok={ok}, handshake_valid={valid})", "handle", [lambda: Obj("Request", {"stream_id": 1, "headers": Opaque("headers"), "http_version": ver, "method": "GET", "raw_path": Opaque("raw_path"), "state": Opaque("state")})], {**P, "server_ok": ok, "hs_valid": valid}))
        else:
            variants = {
                "no frames": [],
                "message": [msg(True)],
                "fragment": [msg(False)],
                "oversized message": [msg(True, True)],
                "ping": [Obj("Ping", {})],
                "close": [Obj("CloseConnection", {"code": 1001})],
                "message+close": [msg(True, cls="BytesMessage"), Obj("CloseConnection", {"code": 1000})],
            }
            for name, evs in variants.items():
                out.append((f"Data({name})", "handle", [lambda: Obj("Data", {"stream_id": 1, "data": b"x"})], {**P, "ws_events": evs}))
            out.append(("StreamClosed", "handle", [lambda: Obj("StreamClosed", {"stream_id": 1})], P))
    if g["n_spawn"] > 0 and not g["app_done"]:
        out.append(("websocket.accept", "app_send", [lambda: {"type": "websocket.accept"}], A))
        out.append(("websocket.accept(subprotocol not offered)", "app_send", [lambda: {"type": "websocket.accept", "subprotocol": Opaque("bad")}], A))
        out.append(("websocket.accept(bad headers)", "app_send", [lambda: {"type": "websocket.accept", "headers": _hdr(False)}], A))
        for status in (401, 204):
            out.append((f"websocket.http.response.start(status={status})", "app_send", [lambda s=status: {"type": "websocket.http.response.start", "status": s, "headers": _hdr(True)}], A))
        out.append(("websocket.http.response.start(str status)", "app_send", [lambda: {"type": "websocket.http.response.start", "status": "403", "headers": _hdr(True)}], A))
        out.append(("websocket.http.response.start(bad headers)", "app_send", [lambda: {"type": "websocket.http.response.start", "status": 401, "headers": _hdr(False)}], A))
        for more in (True, False):
            out.append((f"websocket.http.response.body(more_body={more})", "app_send", [lambda m=more: {"type": "websocket.http.response.body", "body": b"x", "more_body": m}], A))
        out.append(("websocket.send(bytes)", "app_send", [lambda: {"type": "websocket.send", "bytes": b"x"}], A))
        out.append(("websocket.send(text)", "app_send", [lambda: {"type": "websocket.send", "text": "x"}], A))
        out.append(("websocket.send(non-str text)", "app_send", [lambda: {"type": "websocket.send", "text": b"x"}], A))
        out.append(("websocket.close", "app_send", [lambda: {"type": "websocket.close"}], A))
        out.append(("not_a_real_type", "app_send", [lambda: {"type": "not_a_real_type"}], A))
        out.append(("None", "app_send", [None], A))
    return out


RUNS = [
    ("protocol.http_stream", "HTTPStream", {"http_version": "1.1", "method": "GET"}, http_inputs),
    ("protocol.http_stream", "HTTPStream", {"http_version": "2", "method": "GET", "te": True}, http_inputs),
    ("protocol.http_stream", "HTTPStream", {"http_version": "2", "method": "HEAD", "te": False}, http_inputs),
    ("protocol.ws_stream", "WSStream", {"http_version": "1.1"}, ws_inputs),
    ("protocol.ws_stream", "WSStream", {"http_version": "2"}, ws_inputs),
]

THOROUGH_RUNS = [
    ("protocol.http_stream", "HTTPStream", {"http_version": "1.0", "method": "GET"}, http_inputs),
    ("protocol.http_stream", "HTTPStream", {"http_version": "1.1", "method": "HEAD"}, http_inputs),
    ("protocol.http_stream", "HTTPStream", {"http_version": "2", "method": "GET", "te": False}, http_inputs),
    ("protocol.http_stream", "HTTPStream", {"http_version": "3", "method": "GET", "te": True}, http_inputs),
    ("protocol.ws_stream", "WSStream", {"http_version": "3"}, ws_inputs),
]

_CACHE: Dict[str, Any] = {}

# invariant id -> (properties it is reported under, rule id per property)
RULE_MAP = {
    "C01.R1": {"C01": "C01.R1"},
    "C02.R1": {"C02": "C02.R1"},
    "C02.R11": {"C02": "C02.R11"},
    "C03.R1": {"C03": "C03.R1", "C07": "C07.R2"},
    "C03.R2": {"C03": "C03.R2"},
    "C03.R3": {"C03": "C03.R3"},
    "C03.R4": {"C03": "C03.R4"},
    "C05.R2": {"C05": "C05.R2", "C06": "C06.R8"},
    "C05.R2sc": {"C05": "C05.R2", "C06": "C06.R8", "C07": "C07.R11"},
    "C07.R2": {"C07": "C07.R2", "C03": "C03.R7"},
    "C11.R3": {"C11": "C11.R3"},
    "C11.R4": {"C11": "C11.R4"},
    "C12.R2": {"C12": "C12.R2", "C05": "C05.R5"},
    "C12.R3": {"C12": "C12.R3"},
    "C12.R1t": {"C12": "C12.R1"},
    "escape": {"C05": "C05.R6", "C03": "C03.R8"},
}

RULE_TEXT = {
    "C01.R1": "typestate: exactly one application is started for an accepted request, none for a rejected one",
    "C02.R1": "typestate: emission grammar - Info* Response Body* Trailers* EndBody StreamClosed (or an aborted prefix ending in StreamClosed); at most one EndBody; nothing after StreamClosed",
    "C02.R11": "typestate: every accepted body message (HTTP response body, WebSocket denial-response body) emits its data as a Body event in every state in which it is accepted, unless the method / status suppresses bodies - then it emits none",
    "C03.R1": "typestate: at most one disconnect message; exactly one once protocol and application are both finished",
    "C03.R2": "typestate: nothing is delivered to the application after its disconnect message",
    "C03.R3": "typestate: at most one access-log record per request; exactly one once the request is over",
    "C03.R4": "typestate: after closure WSStream.app_send is a silent no-op (no emission, no exception)",
    "C03.R7": "typestate: a stream that answers by itself (400/404) also ends itself (StreamClosed), otherwise its owner never learns the request is over",
    "C03.R8": "typestate: no exception escapes handle() or app_send(None) (reading attributes that were never assigned, calling a missing collaborator)",
    "C05.R2": "typestate: application exit - 500 + EndBody + StreamClosed when no head was sent; never EndBody after a started, unfinished response; StreamClosed exactly once",
    "C06.R8": "typestate: an application that ends without completing its response always makes the stream emit StreamClosed (exactly once), which is what makes HTTP/1 close instead of waiting on / recycling an unfinished message",
    "C07.R11": "typestate: an application that ends - in whatever state, including after its own close / denial response - makes the stream emit StreamClosed exactly once, which is what lets the protocol close the connection or re-arm the idle timer",
    "C05.R5": "typestate: a rejected application message leaves no emission and no state change (otherwise the later application exit takes the wrong arm)",
    "C05.R6": "typestate: nothing escapes app_send(None) / handle()",
    "C07.R2": "typestate: stream-generated final responses (400/404 with connection: close) also emit StreamClosed, so the protocol closes / re-arms the idle timer",
    "C11.R3": "typestate: invalid handshake / unknown server name => 400 / 404 and no application",
    "C11.R4": "typestate: the first message to a WebSocket application is websocket.connect",
    "C12.R2": "typestate: a rejected application message (raise) emits nothing and leaves the tracked state unchanged",
    "C12.R3": "typestate: at most one final response head per request",
}


def analyse(repo: Repo, tier: str = "quick"):
    key = repo.digest() + tier
    if key in _CACHE:
        return _CACHE[key]
    results = []
    for module, cls, params, inputs in RUNS + (THOROUGH_RUNS if tier == "thorough" else []):
        ex = Explorer(repo, module, cls, params, inputs)
        ex.explore()
        results.append(ex)
    _CACHE[key] = results
    return results


def run_rules(ctx: Ctx, prop: str) -> None:
    results = analyse(ctx.repo, ctx.tier)
    wanted = {inv: m[prop] for inv, m in RULE_MAP.items() if prop in m}
    for rid in sorted(set(wanted.values())):
        if rid not in ctx.rules:
            ctx.rule(rid, RULE_TEXT.get(rid, RULE_TEXT.get([i for i, r in wanted.items() if r == rid][0], rid)), floor=1)
    states = sum(e.states for e in results)
    transitions = sum(e.transitions for e in results)
    ctx.states += states
    ctx.transitions += transitions
    ctx.extra.setdefault("typestate_runs", [
        {"class": e.cls, "params": {k: v for k, v in e.params.items()}, "states": e.states, "transitions": e.transitions, "sample_words": e.sample_words[:3], "unknown_calls_treated_as_opaque": e.m.unknown_calls}
        for e in results
    ])
    reported = set()
    for e in results:
        tag = f"{e.cls}[HTTP/{e.params['http_version']}" + (f" {e.params.get('method')}" if e.params.get("method") else "") + "]"
        for rid in sorted(set(wanted.values())):
            ctx.check(rid, f"{e.module}:{e.cls}", f"invariant over all reachable stores ({tag})", True, "", None, sample={"states": e.states, "transitions": e.transitions})
        for (inv, construct), v in sorted(e.violations.items()):
            if inv not in wanted:
                continue
            rid = wanted[inv]
            k = (rid, v.cls, construct)
            if k in reported:
                continue
            reported.add(k)
            ctx.check(rid, f"{e.module}:{v.cls}", construct, False, f"{v.what}. Shortest input word ({tag}): {' ; '.join(v.word)}", None, detail={"input_word": v.word, "run": tag}, at=(ctx.repo.relpath(e.module), v.line))
    ctx.assume("typestate: queue-full suspension and interleavings in which a suspended handle() resumes after another task closed the stream are not modelled (one input is processed at a time); library objects are opaque")
