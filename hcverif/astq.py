"""AST query helpers: dotted names, calls, structured guards, provenance (def-use)."""
from __future__ import annotations

import ast
from typing import Dict, Iterable, Iterator, List, Optional, Sequence, Set, Tuple

FuncT = (ast.FunctionDef, ast.AsyncFunctionDef)


def norm(node: Optional[ast.AST]) -> str:
    if node is None:
        return ""
    try:
        return ast.unparse(node)
    except Exception:  # pragma: no cover
        return ast.dump(node)


def dotted(node: ast.AST) -> Optional[str]:
    """'self.connection.send_data' for Name/Attribute chains, None otherwise."""
    parts: List[str] = []
    while isinstance(node, ast.Attribute):
        parts.append(node.attr)
        node = node.value
    if isinstance(node, ast.Name):
        parts.append(node.id)
        return ".".join(reversed(parts))
    return None


def strip_await(node: ast.AST) -> ast.AST:
    while isinstance(node, ast.Await):
        node = node.value
    return node


def parent(node: ast.AST) -> Optional[ast.AST]:
    return getattr(node, "_parent", None)


def ancestors(node: ast.AST) -> Iterator[ast.AST]:
    p = parent(node)
    while p is not None:
        yield p
        p = parent(p)


def enclosing_func(node: ast.AST) -> Optional[ast.AST]:
    for a in ancestors(node):
        if isinstance(a, FuncT):
            return a
    return None


def enclosing_stmt(node: ast.AST) -> ast.stmt:
    n = node
    while not isinstance(n, ast.stmt):
        n = parent(n)
    return n


def walk_local(func: ast.AST) -> Iterator[ast.AST]:
    """Walk a function body without descending into nested function/class definitions."""
    stack = list(reversed(list(ast.iter_child_nodes(func))))
    while stack:
        n = stack.pop()
        yield n
        if isinstance(n, FuncT + (ast.ClassDef, ast.Lambda)):
            continue
        stack.extend(reversed(list(ast.iter_child_nodes(n))))


def calls(node: ast.AST, local: bool = True) -> List[ast.Call]:
    """Call nodes under node in source order."""
    it = walk_local(node) if local and isinstance(node, FuncT) else ast.walk(node)
    out = [n for n in it if isinstance(n, ast.Call)]
    out.sort(key=lambda c: (c.lineno, c.col_offset))
    return out


def call_name(call: ast.Call) -> Optional[str]:
    return dotted(call.func)


def find_calls(node: ast.AST, *names: str, suffix: bool = False) -> List[ast.Call]:
    """Calls whose dotted callee equals (or, with suffix=True, ends with '.'+name or equals) a name."""
    out = []
    for c in calls(node):
        d = call_name(c)
        if d is None:
            # e.g. self.streams[x].handle(...)  -> use attribute name with '[]' marker
            d = callee_shape(c.func)
        if d is None:
            continue
        for name in names:
            if d == name or (suffix and (d.endswith("." + name))):
                out.append(c)
                break
    return out


def callee_shape(node: ast.AST) -> Optional[str]:
    """Like dotted() but tolerates subscripts/calls in the chain: self.streams[].handle"""
    parts: List[str] = []
    while True:
        if isinstance(node, ast.Attribute):
            parts.append(node.attr)
            node = node.value
        elif isinstance(node, ast.Subscript):
            parts.append("[]")
            node = node.value
        elif isinstance(node, ast.Call):
            parts.append("()")
            node = node.func
        elif isinstance(node, ast.Name):
            parts.append(node.id)
            break
        else:
            return None
    out = ""
    for p in reversed(parts):
        if p in ("[]", "()"):
            out += p
        else:
            out += ("." if out else "") + p
    return out


def _x(value: ast.AST, call: ast.Call) -> ast.AST:
    """Argument value with single-assignment pure locals inlined (a value that was merely given a name)."""
    if isinstance(value, ast.Name) and hasattr(call, "_parent"):
        try:
            return _expand_test(value, call, any_pure=True)
        except Exception:  # pragma: no cover
            return value
    return value


def kwarg(call: ast.Call, name: str) -> Optional[ast.AST]:
    for k in call.keywords:
        if k.arg == name:
            return k.value
    return None


def arg(call: ast.Call, index: int, name: Optional[str] = None) -> Optional[ast.AST]:
    if name is not None:
        v = kwarg(call, name)
        if v is not None:
            return v
    if index < len(call.args) and not any(isinstance(a, ast.Starred) for a in call.args[: index + 1]):
        return call.args[index]
    return None


def const(node: Optional[ast.AST]):
    if isinstance(node, ast.Constant):
        return node.value
    raise ValueError("not a constant")


def is_const(node: Optional[ast.AST], value) -> bool:
    return isinstance(node, ast.Constant) and type(node.value) is type(value) and node.value == value


# --------------------------------------------------------------------------- guards


def _terminates(body: Sequence[ast.stmt]) -> bool:
    """Block always leaves the enclosing block (return/raise/continue/break at its end)."""
    if not body:
        return False
    last = body[-1]
    if isinstance(last, (ast.Return, ast.Raise, ast.Continue, ast.Break)):
        return True
    if isinstance(last, ast.If):
        return bool(last.orelse) and _terminates(last.body) and _terminates(last.orelse)
    return False


Guard = Tuple[ast.AST, bool]


def _expand_test(test: ast.AST, at: ast.AST, any_pure: bool = False) -> ast.AST:
    """Inline (a) local names bound exactly once to a pure boolean expression and (b) zero-argument
    `self.helper()` calls whose method body is a single `return <expr>`, so that a guard that was
    merely given a name (local or helper) is analysed as the expression it stands for."""
    func = enclosing_func(at)
    cls = None
    for a in ancestors(at):
        if isinstance(a, ast.ClassDef):
            cls = a
            break
    if func is None:
        return test
    single: Dict[str, ast.AST] = {}
    counts: Dict[str, int] = {}
    for n in walk_local(func):
        if isinstance(n, ast.Assign) and len(n.targets) == 1 and isinstance(n.targets[0], ast.Name):
            counts[n.targets[0].id] = counts.get(n.targets[0].id, 0) + 1
            single[n.targets[0].id] = n.value
        elif isinstance(n, (ast.AugAssign, ast.AnnAssign, ast.For, ast.AsyncFor, ast.NamedExpr)):
            for t in ast.walk(n.target if hasattr(n, "target") else n):
                if isinstance(t, ast.Name):
                    counts[t.id] = counts.get(t.id, 0) + 2
    helpers: Dict[str, ast.AST] = {}
    if cls is not None:
        for m in cls.body:
            if isinstance(m, FuncT) and len(m.args.args) == 1:
                body = [st for st in m.body if not (isinstance(st, ast.Expr) and isinstance(st.value, ast.Constant))]
                if len(body) == 1 and isinstance(body[0], ast.Return) and body[0].value is not None:
                    helpers[m.name] = body[0].value

    def pure_bool(e: ast.AST) -> bool:
        if any(isinstance(x, (ast.Await, ast.NamedExpr, ast.Yield, ast.YieldFrom)) for x in ast.walk(e)):
            return False
        if any_pure:
            return not isinstance(e, (ast.Name, ast.Constant, ast.List, ast.Dict, ast.Set, ast.ListComp, ast.DictComp))
        return isinstance(e, (ast.BoolOp, ast.Compare, ast.UnaryOp))

    class T(ast.NodeTransformer):
        def visit_Name(self, n: ast.Name):
            if isinstance(n.ctx, ast.Load) and counts.get(n.id) == 1 and n.id in single and pure_bool(single[n.id]):
                return single[n.id]
            return n

        def visit_Call(self, n: ast.Call):
            self.generic_visit(n)
            if not n.args and not n.keywords and isinstance(n.func, ast.Attribute) and isinstance(n.func.value, ast.Name) and n.func.value.id == "self" and n.func.attr in helpers:
                return helpers[n.func.attr]
            return n

    if not any(isinstance(x, (ast.Name, ast.Call)) for x in ast.walk(test)):
        return test
    import copy

    new = T().visit(copy.deepcopy(test))
    if norm(new) == norm(test):
        return test
    for x in ast.walk(new):
        if not hasattr(x, "lineno"):
            x.lineno = getattr(test, "lineno", 0)
            x.col_offset = getattr(test, "col_offset", 0)
    return new


def guards(node: ast.AST, stop: Optional[ast.AST] = None) -> List[Guard]:
    return [(_expand_test(t, node), p) for t, p in _guards_raw(node, stop)]


def _guards_raw(node: ast.AST, stop: Optional[ast.AST] = None) -> List[Guard]:
    """Conditions that hold whenever control reaches ``node`` in structured code.

    Collected from enclosing if/elif/while/ifexp/boolop and from earlier sibling
    ``if T: <leaves block>`` statements (early exits).  Each entry is (test, polarity).
    ``stop``: stop climbing at this ancestor (default: enclosing function).
    """
    out: List[Guard] = []
    child = node
    for anc in ancestors(node):
        if isinstance(anc, ast.If):
            if _in(child, anc.body):
                out.append((anc.test, True))
            elif _in(child, anc.orelse):
                out.append((anc.test, False))
        elif isinstance(anc, ast.While):
            if _in(child, anc.body):
                out.append((anc.test, True))
        elif isinstance(anc, ast.IfExp):
            if child is anc.body:
                out.append((anc.test, True))
            elif child is anc.orelse:
                out.append((anc.test, False))
        elif isinstance(anc, ast.BoolOp):
            idx = anc.values.index(child) if child in anc.values else -1
            for prev in anc.values[: max(idx, 0)]:
                out.append((prev, isinstance(anc.op, ast.And)))
        # early exits among previous siblings in whichever block holds `child`
        if isinstance(child, ast.stmt):
            for block in _blocks(anc):
                if _in(child, block):
                    for prev in block[: _index(child, block)]:
                        if isinstance(prev, ast.If) and not prev.orelse and _terminates(prev.body):
                            out.append((prev.test, False))
                        elif isinstance(prev, ast.If) and prev.orelse:
                            if _terminates(prev.body) and not _terminates(prev.orelse):
                                out.append((prev.test, False))
                            elif _terminates(prev.orelse) and not _terminates(prev.body):
                                out.append((prev.test, True))
        if anc is stop or isinstance(anc, FuncT):
            break
        child = anc
    return out


def _in(child: ast.AST, block: Sequence[ast.AST]) -> bool:
    return any(child is b for b in block)


def _index(child: ast.AST, block: Sequence[ast.AST]) -> int:
    for i, b in enumerate(block):
        if b is child:
            return i
    return -1


def _blocks(node: ast.AST) -> List[List[ast.stmt]]:
    out = []
    for name in ("body", "orelse", "finalbody"):
        b = getattr(node, name, None)
        if isinstance(b, list) and b and isinstance(b[0], ast.stmt):
            out.append(b)
    if isinstance(node, ast.Try):
        for h in node.handlers:
            out.append(h.body)
    return out


def atoms(test: ast.AST, polarity: bool = True) -> List[Tuple[str, bool]]:
    """Flatten a guard into atomic (normalised text, polarity) facts that must hold.

    ``a and b`` (true) -> both; ``not (a or b)`` -> not a, not b; otherwise the whole
    expression is one atom.
    """
    if isinstance(test, ast.UnaryOp) and isinstance(test.op, ast.Not):
        return atoms(test.operand, not polarity)
    if isinstance(test, ast.BoolOp):
        if isinstance(test.op, ast.And) and polarity:
            return [a for v in test.values for a in atoms(v, True)]
        if isinstance(test.op, ast.Or) and not polarity:
            return [a for v in test.values for a in atoms(v, False)]
    return [(norm(test), polarity)]


_NEG_OPS = {ast.IsNot: ast.Is, ast.NotEq: ast.Eq, ast.NotIn: ast.In}
_MIRROR = {ast.Lt: ast.Gt, ast.Gt: ast.Lt, ast.LtE: ast.GtE, ast.GtE: ast.LtE, ast.Eq: ast.Eq, ast.NotEq: ast.NotEq}
_CANON_CACHE: Dict[Tuple[str, bool], Tuple[str, bool]] = {}


def canon_atom(atom: Tuple[str, bool]) -> Tuple[str, bool]:
    """Canonical spelling of an atomic fact: `not`, `is not`, `!=`, `not in` are folded into the
    polarity, a constant left operand is mirrored to the right (`0 < x` -> `x > 0`)."""
    if not (isinstance(atom, tuple) and len(atom) == 2 and isinstance(atom[0], str)):
        return atom
    if atom in _CANON_CACHE:
        return _CANON_CACHE[atom]
    text, pol = atom
    try:
        e = ast.parse(text, mode="eval").body
    except SyntaxError:
        _CANON_CACHE[atom] = atom
        return atom
    while isinstance(e, ast.UnaryOp) and isinstance(e.op, ast.Not):
        e = e.operand
        pol = not pol
    if isinstance(e, ast.Compare) and len(e.ops) == 1:
        op = e.ops[0]
        left, right = e.left, e.comparators[0]
        if type(op) in _NEG_OPS:
            op = _NEG_OPS[type(op)]()
            pol = not pol
        if type(op) in (ast.Gt, ast.GtE):  # one direction only: a > b is written b < a
            left, right, op = right, left, _MIRROR[type(op)]()
        elif isinstance(left, ast.Constant) and not isinstance(right, ast.Constant) and type(op) in (ast.Eq,):
            left, right = right, left
        if not pol and type(op) in (ast.Lt, ast.LtE):
            # ordering comparisons are written positively: not (a < b)  ==  b <= a   (total orders; the
            # operands compared in this code base are ints, lengths and status codes)
            left, right, op, pol = right, left, (ast.LtE() if isinstance(op, ast.Lt) else ast.Lt()), True
        e = ast.Compare(left=left, ops=[op], comparators=[right])
    out = (norm(e), pol)
    _CANON_CACHE[atom] = out
    return out


class AtomSet(set):
    """A set of (text, polarity) facts compared modulo `canon_atom`."""

    def __init__(self, items=()):  # type: ignore[no-untyped-def]
        super().__init__(canon_atom(i) for i in items)

    def _c(self, other):  # type: ignore[no-untyped-def]
        return other if isinstance(other, AtomSet) else AtomSet(other)

    def __contains__(self, item) -> bool:  # type: ignore[no-untyped-def]
        return set.__contains__(self, canon_atom(item))

    def __eq__(self, other) -> bool:  # type: ignore[no-untyped-def]
        return isinstance(other, (set, frozenset)) and set.__eq__(self, self._c(other))

    def __ne__(self, other) -> bool:  # type: ignore[no-untyped-def]
        return not self.__eq__(other)

    __hash__ = None  # type: ignore[assignment]

    def __le__(self, other):  # type: ignore[no-untyped-def]
        return set.__le__(self, self._c(other))

    def __ge__(self, other):  # type: ignore[no-untyped-def]
        return set.__ge__(self, self._c(other))

    def __lt__(self, other):  # type: ignore[no-untyped-def]
        return set.__lt__(self, self._c(other))

    def __gt__(self, other):  # type: ignore[no-untyped-def]
        return set.__gt__(self, self._c(other))

    def issubset(self, other):  # type: ignore[no-untyped-def]
        return set.issubset(self, self._c(other))

    def issuperset(self, other):  # type: ignore[no-untyped-def]
        return set.issuperset(self, self._c(other))

    def __sub__(self, other):  # type: ignore[no-untyped-def]
        return AtomSet(set.__sub__(self, self._c(other)))

    def __rsub__(self, other):  # type: ignore[no-untyped-def]
        return AtomSet(set.__sub__(self._c(other), self))

    def __and__(self, other):  # type: ignore[no-untyped-def]
        return AtomSet(set.__and__(self, self._c(other)))

    __rand__ = __and__

    def __or__(self, other):  # type: ignore[no-untyped-def]
        return AtomSet(set.__or__(self, self._c(other)))

    __ror__ = __or__

    def isdisjoint(self, other):  # type: ignore[no-untyped-def]
        return set.isdisjoint(self, self._c(other))


def guard_atoms(node: ast.AST, stop: Optional[ast.AST] = None) -> Set[Tuple[str, bool]]:
    out: Set[Tuple[str, bool]] = set()
    for test, pol in guards(node, stop):
        out.update(atoms(test, pol))
    return AtomSet(out)


def isinstance_guard(node: ast.AST, var: str) -> Set[str]:
    """Class names C such that isinstance(var, C) is known true at node."""
    out: Set[str] = set()
    for test, pol in guards(node):
        for a, p in _atom_nodes(test, pol):
            if p and isinstance(a, ast.Call) and dotted(a.func) == "isinstance" and len(a.args) == 2:
                if norm(a.args[0]) == var:
                    t = a.args[1]
                    names = t.elts if isinstance(t, ast.Tuple) else [t]
                    if len(names) == 1:
                        d = dotted(names[0])
                        if d:
                            out.add(d)
                    else:
                        out.add("|".join(sorted(dotted(n) or "?" for n in names)))
    return out


def _atom_nodes(test: ast.AST, polarity: bool = True) -> List[Tuple[ast.AST, bool]]:
    if isinstance(test, ast.UnaryOp) and isinstance(test.op, ast.Not):
        return _atom_nodes(test.operand, not polarity)
    if isinstance(test, ast.BoolOp):
        if isinstance(test.op, ast.And) and polarity:
            return [a for v in test.values for a in _atom_nodes(v, True)]
        if isinstance(test.op, ast.Or) and not polarity:
            return [a for v in test.values for a in _atom_nodes(v, False)]
    return [(test, polarity)]


def guard_atom_nodes(node: ast.AST, stop: Optional[ast.AST] = None) -> List[Tuple[ast.AST, bool]]:
    out: List[Tuple[ast.AST, bool]] = []
    for test, pol in guards(node, stop):
        out.extend(_atom_nodes(test, pol))
    return out


# --------------------------------------------------------------------------- if-chain dispatch


def isinstance_arms(func: ast.AST, var: str) -> Dict[str, List[ast.stmt]]:
    """Map class name -> body for every `if/elif isinstance(var, Cls)` arm in func (any nesting).

    A tuple of classes registers the body under each class name.  Only the *last*
    dotted component is used as key (h2.events.DataReceived -> DataReceived).
    """
    out: Dict[str, List[ast.stmt]] = {}
    for n in walk_local(func):
        if isinstance(n, ast.If):
            for a, pol in _atom_nodes(n.test, True):
                if isinstance(a, ast.Call) and dotted(a.func) == "isinstance" and len(a.args) == 2:
                    if norm(a.args[0]) == var:
                        t = a.args[1]
                        for e in t.elts if isinstance(t, ast.Tuple) else [t]:
                            d = dotted(e)
                            if d:
                                out.setdefault(d.split(".")[-1], n.body)
    return out


# --------------------------------------------------------------------------- provenance


class Prov:
    """Flow-insensitive provenance of an expression inside one function.

    leaves: normalised source terms (parameters / attribute reads / constants)
    ops:    names of calls, methods and index operations applied on the way
    """

    def __init__(self) -> None:
        self.leaves: Set[str] = set()
        self.ops: Set[str] = set()

    def __repr__(self) -> str:
        return f"Prov(leaves={sorted(self.leaves)}, ops={sorted(self.ops)})"


def expand_locals(expr: ast.AST, func: ast.AST, keep: Sequence[str] = ()) -> ast.AST:
    """`expr` with every local name that is bound exactly once in `func` (by a plain assignment
    to an await-free expression) replaced by that expression, recursively: a value that was
    merely given a name reads the same as the value written in place."""
    import copy

    counts: Dict[str, int] = {}
    single: Dict[str, ast.AST] = {}
    for n in walk_local(func):
        if isinstance(n, ast.Assign) and len(n.targets) == 1 and isinstance(n.targets[0], ast.Name):
            counts[n.targets[0].id] = counts.get(n.targets[0].id, 0) + 1
            single[n.targets[0].id] = n.value
        elif isinstance(n, ast.AnnAssign) and isinstance(n.target, ast.Name) and n.value is not None:
            counts[n.target.id] = counts.get(n.target.id, 0) + 1
            single[n.target.id] = n.value
        elif isinstance(n, (ast.Assign, ast.AugAssign, ast.For, ast.AsyncFor, ast.NamedExpr, ast.With, ast.AsyncWith, ast.comprehension)):
            tgts = n.targets if isinstance(n, ast.Assign) else [getattr(n, "target", None)] if not isinstance(n, (ast.With, ast.AsyncWith)) else [i.optional_vars for i in n.items]
            for tg in tgts:
                for t in ast.walk(tg) if tg is not None else []:
                    if isinstance(t, ast.Name):
                        counts[t.id] = counts.get(t.id, 0) + 2
    if isinstance(func, FuncT):
        for a in func.args.posonlyargs + func.args.args + func.args.kwonlyargs:
            counts[a.arg] = counts.get(a.arg, 0) + 2

    def ok(name: str) -> bool:
        return counts.get(name) == 1 and name not in keep and not any(isinstance(x, (ast.Await, ast.Yield, ast.YieldFrom, ast.NamedExpr)) for x in ast.walk(single[name]))

    class T(ast.NodeTransformer):
        def __init__(self) -> None:
            self.depth = 0

        def visit_Name(self, n: ast.Name):  # noqa: N802
            if isinstance(n.ctx, ast.Load) and n.id in single and ok(n.id) and self.depth < 8:
                self.depth += 1
                new = self.visit(copy.deepcopy(single[n.id]))
                self.depth -= 1
                return new
            return n

    return T().visit(copy.deepcopy(expr))


def local_defs(func: ast.AST, scope: Optional[Sequence[ast.stmt]] = None) -> Dict[str, List[Tuple[ast.AST, Tuple[str, ...]]]]:
    """name -> list of (rhs expr, extra ops) for every binding of a local name.

    ``scope``: only bindings inside these statements are considered (arm-sensitive provenance)."""
    defs: Dict[str, List[Tuple[ast.AST, Tuple[str, ...]]]] = {}

    def bind(target: ast.AST, value: ast.AST, ops: Tuple[str, ...]) -> None:
        if isinstance(target, ast.Name):
            defs.setdefault(target.id, []).append((value, ops))
        elif isinstance(target, (ast.Tuple, ast.List)):
            for i, elt in enumerate(target.elts):
                if isinstance(value, (ast.Tuple, ast.List)) and len(value.elts) == len(target.elts):
                    bind(elt, value.elts[i], ops)
                else:
                    bind(elt, value, ops + (f"[{i}]",))
        elif isinstance(target, ast.Starred):
            bind(target.value, value, ops + ("[*]",))

    def _nodes():
        if scope is None:
            yield from walk_local(func)
        else:
            for st in scope:
                yield st
                yield from walk_local(st)

    for n in _nodes():
        if isinstance(n, ast.Assign):
            for t in n.targets:
                bind(t, n.value, ())
        elif isinstance(n, ast.AnnAssign) and n.value is not None:
            bind(n.target, n.value, ())
        elif isinstance(n, ast.AugAssign):
            bind(n.target, n.value, ("aug",))
        elif isinstance(n, (ast.For, ast.AsyncFor)):
            bind(n.target, n.iter, ("iter",))
        elif isinstance(n, ast.NamedExpr):
            bind(n.target, n.value, ())
        elif isinstance(n, (ast.With, ast.AsyncWith)):
            for item in n.items:
                if item.optional_vars is not None:
                    bind(item.optional_vars, item.context_expr, ("with",))
        elif isinstance(n, ast.comprehension):
            bind(n.target, n.iter, ("iter",))
        elif isinstance(n, ast.ExceptHandler) and n.name:
            defs.setdefault(n.name, []).append((n.type or ast.Constant(None), ("except",)))
        # a container local filled element by element derives from what is put into it
        if isinstance(n, ast.Assign):
            for t in n.targets:
                if isinstance(t, ast.Subscript) and isinstance(t.value, ast.Name):
                    defs.setdefault(t.value.id, []).append((n.value, ("[]=",)))
                    defs.setdefault(t.value.id, []).append((t.slice, ("[]=",)))
        elif isinstance(n, ast.Expr) and isinstance(n.value, ast.Call) and isinstance(n.value.func, ast.Attribute) and isinstance(n.value.func.value, ast.Name) and n.value.func.attr in ("append", "extend", "update", "add", "insert", "setdefault"):
            for a_ in n.value.args:
                defs.setdefault(n.value.func.value.id, []).append((a_, (f".{n.value.func.attr}",)))
    return defs


def provenance(expr: ast.AST, func: ast.AST, _defs=None, _seen=None, scope: Optional[Sequence[ast.stmt]] = None) -> Prov:
    defs = _defs if _defs is not None else local_defs(func, scope)
    seen: Set[str] = _seen if _seen is not None else set()
    params = set()
    if isinstance(func, FuncT):
        a = func.args
        params = {x.arg for x in a.posonlyargs + a.args + a.kwonlyargs}
        if a.vararg:
            params.add(a.vararg.arg)
        if a.kwarg:
            params.add(a.kwarg.arg)
    p = Prov()

    def go(e: ast.AST) -> None:
        if isinstance(e, ast.Await):
            go(e.value)
        elif isinstance(e, ast.Constant):
            p.leaves.add("const:" + repr(e.value))
        elif isinstance(e, ast.Name):
            if e.id in defs and e.id not in seen:
                seen.add(e.id)
                for rhs, ops in defs[e.id]:
                    p.ops.update(ops)
                    go(rhs)
                if e.id in params:
                    p.leaves.add(e.id)
            elif e.id in defs:
                pass
            else:
                p.leaves.add(e.id)
        elif isinstance(e, ast.Attribute):
            d = dotted(e)
            if d is not None:
                root = d.split(".")[0]
                if root in defs and root not in params and root != "self":
                    # attribute of a local: provenance of the local plus attr op
                    p.ops.add("." + ".".join(d.split(".")[1:]))
                    go(ast.Name(id=root, ctx=ast.Load()))
                else:
                    p.leaves.add(d)
            else:
                p.ops.add("." + e.attr)
                go(e.value)
        elif isinstance(e, ast.Call):
            d = dotted(e.func)
            if isinstance(e.func, ast.Attribute):
                p.ops.add(e.func.attr + "()")
                go(e.func.value)
            elif d:
                p.ops.add(d + "()")
                if isinstance(e.func, ast.Name) and (e.func.id in params or e.func.id in defs):
                    go(e.func)
            for a_ in e.args:
                go(a_.value if isinstance(a_, ast.Starred) else a_)
            for k in e.keywords:
                go(k.value)
        elif isinstance(e, ast.Subscript):
            s = e.slice
            if isinstance(s, ast.Constant):
                p.ops.add(f"[{s.value!r}]")
            elif isinstance(s, ast.Slice):
                p.ops.add("[" + norm(s) + "]")
                for part in (s.lower, s.upper, s.step):
                    if part is not None:
                        go(part)
            elif isinstance(s, ast.UnaryOp) and isinstance(s.op, ast.USub):
                p.ops.add("[-]")
                go(s.operand)
            else:
                p.ops.add("[]")
                go(s)
            go(e.value)
        elif isinstance(e, (ast.Tuple, ast.List, ast.Set)):
            for elt in e.elts:
                go(elt.value if isinstance(elt, ast.Starred) else elt)
        elif isinstance(e, ast.Dict):
            for k, v in zip(e.keys, e.values):
                if k is not None:
                    go(k)
                go(v)
        elif isinstance(e, ast.BinOp):
            p.ops.add(type(e.op).__name__)
            go(e.left)
            go(e.right)
        elif isinstance(e, ast.UnaryOp):
            p.ops.add(type(e.op).__name__)
            go(e.operand)
        elif isinstance(e, ast.BoolOp):
            p.ops.add(type(e.op).__name__)
            for v in e.values:
                go(v)
        elif isinstance(e, ast.Compare):
            p.ops.add("cmp")
            go(e.left)
            for c in e.comparators:
                go(c)
        elif isinstance(e, ast.IfExp):
            p.ops.add("ifexp")
            go(e.test)
            go(e.body)
            go(e.orelse)
        elif isinstance(e, ast.JoinedStr):
            p.ops.add("fstr")
            for v in e.values:
                go(v)
        elif isinstance(e, ast.FormattedValue):
            go(e.value)
        elif isinstance(e, (ast.ListComp, ast.SetComp, ast.GeneratorExp)):
            p.ops.add("comp")
            for g in e.generators:
                go(g.iter)
                for c in g.ifs:
                    go(c)
            go(e.elt)
        elif isinstance(e, ast.DictComp):
            p.ops.add("comp")
            for g in e.generators:
                go(g.iter)
            go(e.key)
            go(e.value)
        elif isinstance(e, ast.NamedExpr):
            go(e.value)
        elif isinstance(e, ast.Starred):
            go(e.value)
        elif isinstance(e, ast.Lambda):
            go(e.body)

    go(expr)
    return p


def dict_items(node: ast.AST) -> Dict[str, ast.AST]:
    """Constant-keyed items of a dict display."""
    out: Dict[str, ast.AST] = {}
    if isinstance(node, ast.Dict):
        for k, v in zip(node.keys, node.values):
            if isinstance(k, ast.Constant) and isinstance(k.value, str):
                out[k.value] = v
    return out


def assigned_attr_sites(func: ast.AST, attr: str) -> List[ast.stmt]:
    """Statements in func that assign self.<attr> (plain, annotated, augmented, tuple targets)."""
    out = []
    for n in walk_local(func):
        targets: List[ast.AST] = []
        if isinstance(n, ast.Assign):
            targets = list(n.targets)
        elif isinstance(n, (ast.AnnAssign, ast.AugAssign)):
            if isinstance(n, ast.AnnAssign) and n.value is None:
                continue
            targets = [n.target]
        flat: List[ast.AST] = []
        for t in targets:
            flat.extend(t.elts if isinstance(t, (ast.Tuple, ast.List)) else [t])
        for t in flat:
            if dotted(t) == f"self.{attr}":
                out.append(n)
                break
    return out
