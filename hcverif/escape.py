"""Exception-escape analysis (DESIGN 4.C) and library signature conformance (4.H).

For every function f, Esc(f) = set of (exception class, origin site) that may leave f.
Primitive raisers come from tables frozen after reading the repository and the installed
library sources; handlers filter by the real class hierarchy (library / builtin classes
are imported for `issubclass`; repository code is only parsed).
"""
from __future__ import annotations

import ast
import builtins
import importlib
import inspect
from dataclasses import dataclass, field
from typing import Dict, Iterable, List, Optional, Sequence, Set, Tuple

from .astq import FuncT, call_name, callee_shape, calls, dotted, guard_atoms, norm, walk_local
from .cfg import CFG
from .core import AnalysisError, Repo

FuncKey = Tuple[str, str]  # (module, qualname)


# ----------------------------------------------------------------------------- class hierarchy


class Hierarchy:
    def __init__(self, repo: Repo) -> None:
        self.repo = repo
        self._imports: Dict[str, Dict[str, Tuple[str, Optional[str]]]] = {}
        self._repo_classes: Dict[str, Tuple[str, ast.ClassDef]] = {}
        for mname, mod in repo.modules.items():
            for n in ast.walk(mod.tree):
                if isinstance(n, ast.ClassDef):
                    self._repo_classes[f"repo:{mname}.{n.name}"] = (mname, n)

    def imports(self, module: str) -> Dict[str, Tuple[str, Optional[str]]]:
        """local name -> (absolute module, attribute or None)."""
        if module in self._imports:
            return self._imports[module]
        out: Dict[str, Tuple[str, Optional[str]]] = {}
        tree = self.repo.module(module).tree
        pkg_parts = ("hypercorn." + module).split(".")
        is_pkg = self.repo.module(module).path.name == "__init__.py"
        for n in ast.walk(tree):
            if isinstance(n, ast.Import):
                for a in n.names:
                    if a.asname:
                        out[a.asname] = (a.name, None)
                    else:
                        out[a.name.split(".")[0]] = (a.name.split(".")[0], None)
            elif isinstance(n, ast.ImportFrom):
                if n.level:
                    base = pkg_parts if is_pkg else pkg_parts[:-1]
                    base = base[: len(base) - (n.level - 1)]
                    modname = ".".join(base + ([n.module] if n.module else []))
                else:
                    modname = n.module or ""
                for a in n.names:
                    out[a.asname or a.name] = (modname, a.name)
        self._imports[module] = out
        return out

    def resolve(self, node: ast.AST, module: str) -> Optional[str]:
        """Qualified class name for an expression naming a class in `module`'s namespace."""
        d = dotted(node)
        if d is None:
            return None
        parts = d.split(".")
        imps = self.imports(module)
        head = parts[0]
        # repo class defined in this module
        if len(parts) == 1 and f"repo:{module}.{head}" in self._repo_classes:
            return f"repo:{module}.{head}"
        if head in imps:
            modname, attr = imps[head]
            chain = ([attr] if attr else []) + parts[1:]
            if modname.startswith("hypercorn"):
                rm = modname[len("hypercorn") :].lstrip(".")
                if chain and f"repo:{rm}.{chain[0]}" in self._repo_classes:
                    return f"repo:{rm}.{chain[0]}"
                # re-exported name: search all repo classes by short name
                cands = [k for k in self._repo_classes if k.endswith("." + chain[-1])] if chain else []
                return cands[0] if len(cands) == 1 else None
            obj = self._import_obj(modname, chain)
            if inspect.isclass(obj):
                return f"{obj.__module__}.{obj.__qualname__}"
            return None
        if len(parts) == 1 and hasattr(builtins, head) and inspect.isclass(getattr(builtins, head)):
            return f"builtins.{head}"
        return None

    def resolve_obj(self, node: ast.AST, module: str):
        """Library object (class/function) named by an expression, or None."""
        d = dotted(node)
        if d is None:
            return None
        parts = d.split(".")
        imps = self.imports(module)
        if parts[0] not in imps:
            return None
        modname, attr = imps[parts[0]]
        if modname.startswith("hypercorn"):
            return None
        return self._import_obj(modname, ([attr] if attr else []) + parts[1:])

    @staticmethod
    def _import_obj(modname: str, chain: Sequence[str]):
        try:
            obj = importlib.import_module(modname)
        except Exception:
            return None
        for i, part in enumerate(chain):
            if hasattr(obj, part):
                obj = getattr(obj, part)
            else:
                try:
                    obj = importlib.import_module(f"{obj.__name__}.{part}")
                except Exception:
                    return None
        return obj

    def class_obj(self, qual: str):
        if qual.startswith("repo:"):
            return None
        mod, _, name = qual.rpartition(".")
        try:
            obj = importlib.import_module(mod)
            for p in name.split("."):
                obj = getattr(obj, p)
            return obj
        except Exception:
            # qualname may contain module path pieces
            parts = qual.split(".")
            for i in range(len(parts) - 1, 0, -1):
                try:
                    obj = importlib.import_module(".".join(parts[:i]))
                    for p in parts[i:]:
                        obj = getattr(obj, p)
                    return obj
                except Exception:
                    continue
        return None

    def bases(self, qual: str) -> List[str]:
        if qual.startswith("repo:"):
            mname, node = self._repo_classes[qual]
            out = []
            for b in node.bases:
                r = self.resolve(b, mname)
                if r:
                    out.append(r)
            return out
        return []

    def issub(self, a: str, b: str) -> bool:
        if a == b:
            return True
        if a.startswith("repo:"):
            return any(self.issub(x, b) for x in self.bases(a))
        if b.startswith("repo:"):
            return False
        ca, cb = self.class_obj(a), self.class_obj(b)
        if ca is None or cb is None:
            return False
        try:
            return issubclass(ca, cb)
        except TypeError:
            return False


def lib_class(modname: str, name: str) -> str:
    obj = Hierarchy._import_obj(modname, name.split("."))
    if not inspect.isclass(obj):
        raise AnalysisError(f"library class {modname}.{name} not found (raiser table out of date)")
    return f"{obj.__module__}.{obj.__qualname__}"


# ----------------------------------------------------------------------------- escape items


@dataclass(frozen=True)
class Origin:
    func: FuncKey
    construct: str  # normalised text identifying the raising construct
    kind: str  # raise / decode / lookup / unbound / library / signature
    line: int
    reason: str


@dataclass
class Item:
    exc: str
    origin: Origin
    chain: Tuple[str, ...]  # call chain from the function whose Esc this is, down to origin


class EscapeAnalysis:
    def __init__(
        self,
        repo: Repo,
        scope_modules: Sequence[str],
        resolve_table: Dict[Tuple[str, str], Dict[str, List[FuncKey]]],
        lib_raisers: Dict[Tuple[str, str], Dict[str, Tuple[List[str], str]]],
        exempt: Dict[Tuple[FuncKey, str, str], str],
        validated_decodes: Dict[Tuple[FuncKey, str], str],
        peer_tables: Sequence[str] = ("self.streams", "self.stream_buffers"),
    ) -> None:
        self.repo = repo
        self.h = Hierarchy(repo)
        self.scope = list(scope_modules)
        self.resolve_table = resolve_table
        self.lib_raisers = lib_raisers
        self.exempt = exempt
        self.validated_decodes = validated_decodes
        self.peer_tables = tuple(peer_tables)
        self.funcs: Dict[FuncKey, ast.AST] = {}
        for mod, q, fn in repo.all_functions():
            if mod in self.scope:
                self.funcs[(mod, q)] = fn
        self.unresolved: Dict[str, int] = {}
        self.resolved_calls = 0
        self.total_calls = 0
        self.primitive_sites = 0
        self.used_exemptions: Set[Tuple[FuncKey, str, str]] = set()
        self.refine = None  # optional hook (key, call, callees) -> callees
        self._prims: Dict[FuncKey, Dict[int, List[Tuple[str, Origin]]]] = {}
        self.visited: Set[FuncKey] = set()

    # ------------------------------------------------------------------ helpers
    def cls_of(self, key: FuncKey) -> Optional[str]:
        parts = key[1].split(".")
        return parts[0] if len(parts) >= 2 else None

    def resolve_call(self, key: FuncKey, call: ast.Call) -> Tuple[List[FuncKey], Optional[Tuple[List[str], str]]]:
        """(repo callees, library raiser entry)."""
        shape = callee_shape(call.func)
        if shape is None:
            return [], None
        cls = self.cls_of(key)
        mod = key[0]
        table = self.resolve_table.get((mod, cls or ""), {})
        if shape in table:
            return list(table[shape]), None
        entry = self._lib_entry(key, shape)
        if entry is not None:
            return [], entry
        # self.method()
        if shape.startswith("self.") and shape.count(".") == 1 and cls:
            k = (mod, f"{cls}.{shape.split('.')[1]}")
            if k in self.funcs:
                return [k], None
        # bare name: module function / imported repo function / class constructor
        if "." not in shape and "[" not in shape and "(" not in shape:
            if (mod, shape) in self.funcs:
                return [(mod, shape)], None
            if (mod, f"{shape}.__init__") in self.funcs:
                return [(mod, f"{shape}.__init__")], None
            imps = self.h.imports(mod)
            if shape in imps and imps[shape][0].startswith("hypercorn"):
                rm = imps[shape][0][len("hypercorn") :].lstrip(".")
                nm = imps[shape][1] or shape
                for cand in ((rm, nm), (rm, f"{nm}.__init__")):
                    if cand in self.funcs:
                        return [cand], None
                # re-export through a package: search by name
                for k in self.funcs:
                    if k[1] == nm or k[1] == f"{nm}.__init__":
                        return [k], None
        # nested function defined in this function
        if "." not in shape and (mod, f"{key[1]}.{shape}") in self.funcs:
            return [(mod, f"{key[1]}.{shape}")], None
        return [], None

    # ------------------------------------------------------------------ primitive raisers
    def primitives(self, key: FuncKey) -> Dict[int, List[Tuple[str, Origin]]]:
        """stmt-id -> [(exc, origin)] for primitive raisers directly inside that simple statement / test."""
        self.visited.add(key)
        if key in self._prims:
            return self._prims[key]
        fn = self.funcs[key]
        mod = key[0]
        out: Dict[int, List[Tuple[str, Origin]]] = {}
        cfg: Optional[CFG] = None

        def add(host: ast.AST, exc: str, construct: str, kind: str, node: ast.AST, reason: str) -> None:
            ex_key = (key, construct, exc)
            if ex_key in self.exempt or (key, construct, "*") in self.exempt:
                self.used_exemptions.add(ex_key if ex_key in self.exempt else (key, construct, "*"))
                return
            self.primitive_sites += 1
            out.setdefault(id(host), []).append((exc, Origin(key, construct, kind, getattr(node, "lineno", 0), reason)))

        params = {a.arg for a in fn.args.posonlyargs + fn.args.args + fn.args.kwonlyargs}
        if fn.args.vararg:
            params.add(fn.args.vararg.arg)
        if fn.args.kwarg:
            params.add(fn.args.kwarg.arg)
        assigned: Dict[str, List[ast.AST]] = {}
        for n in walk_local(fn):
            if isinstance(n, ast.Name) and isinstance(n.ctx, ast.Store):
                assigned.setdefault(n.id, []).append(n)
            elif isinstance(n, ast.ExceptHandler) and n.name:
                assigned.setdefault(n.name, []).append(n)
            elif isinstance(n, FuncT + (ast.ClassDef,)):
                assigned.setdefault(n.name, []).append(n)
            elif isinstance(n, (ast.Import, ast.ImportFrom)):
                for a in n.names:
                    assigned.setdefault((a.asname or a.name).split(".")[0], []).append(n)
        comp_vars = set()
        for n in walk_local(fn):
            if isinstance(n, ast.comprehension):
                for t in ast.walk(n.target):
                    if isinstance(t, ast.Name):
                        comp_vars.add(t.id)

        for host in _hosts(fn):
            probe = _probe(host)
            if probe is None:
                continue
            for n in ast.walk(probe) if not isinstance(probe, list) else (x for p in probe for x in ast.walk(p)):
                # (1) explicit raise
                if isinstance(n, ast.Raise) and n.exc is not None:
                    target = n.exc.func if isinstance(n.exc, ast.Call) else n.exc
                    q = self.h.resolve(target, mod)
                    if q is None and isinstance(target, ast.Name):
                        q = None  # re-raise of a variable: handled as unknown
                    if q is not None:
                        add(host, q, f"raise {norm(target)}", "raise", n, "explicit raise")
                # (2) strict decode
                if isinstance(n, ast.Call) and isinstance(n.func, ast.Attribute) and n.func.attr == "decode":
                    codec = n.args[0].value if n.args and isinstance(n.args[0], ast.Constant) else ("utf-8" if not n.args else None)
                    if codec is not None and str(codec).lower().replace("-", "") not in ("latin1", "iso88591"):
                        construct = norm(n)
                        if (key, construct) in self.validated_decodes:
                            self.used_exemptions.add((key, construct, "validated"))
                        elif not isinstance(n.func.value, ast.Constant):
                            add(host, "builtins.UnicodeDecodeError", construct, "decode", n, f"strict {codec} decode of peer-supplied bytes")
                # (3) peer-keyed table lookups
                if isinstance(n, ast.Subscript) and isinstance(n.ctx, (ast.Load, ast.Del)) and norm(n.value) in self.peer_tables:
                    keytxt = norm(n.slice)
                    ga = guard_atoms(host)
                    if (f"{keytxt} in {norm(n.value)}", True) in ga:
                        continue
                    if _stored_before(fn, host, n):
                        continue
                    add(host, "builtins.KeyError", norm(n), "lookup", n, f"unguarded lookup in the peer-keyed table {norm(n.value)}")
            # (4) possibly-unbound locals
            for n in ast.walk(probe) if not isinstance(probe, list) else (x for p in probe for x in ast.walk(p)):
                if isinstance(n, ast.Name) and isinstance(n.ctx, ast.Load) and n.id in assigned and n.id not in params and n.id not in comp_vars:
                    if cfg is None:
                        cfg = CFG(fn)
                    use_nodes = cfg.nodes_of(host)
                    def_stmts = set()
                    for d in assigned[n.id]:
                        s = d
                        while s is not None and not isinstance(s, (ast.stmt, ast.ExceptHandler)):
                            s = getattr(s, "_parent", None)
                        def_stmts.add(id(s))
                    is_def = lambda node, _d=def_stmts: node.ast is not None and (id(node.ast) in _d)
                    for u in use_nodes:
                        if cfg.node(u).kind == "iter" and id(host) in def_stmts and not any(id(x) in def_stmts for x in assigned[n.id] if x is not None and False):
                            pass
                        if not cfg.dominates(is_def, u):
                            # the defining statement itself (x = f(x)) does not dominate its own use
                            add(host, "builtins.UnboundLocalError", f"local {n.id}", "unbound", n, f"local `{n.id}` is not assigned on every path reaching this use")
                            break
        self._prims[key] = out
        return out

    # ------------------------------------------------------------------ per-function escape (context-sensitive)
    def compute(self, roots: Sequence[Tuple[FuncKey, tuple]] = ()) -> None:
        """Fixpoint over (function, calling context) pairs discovered from the roots.

        A calling context records, for some parameters, either the class of the object passed
        (`Closed()`, `StreamClosed(...)`) or a constant (None / omitted default); branches whose
        test is decided by the context are not followed.
        """
        self.summ: Dict[Tuple[FuncKey, tuple], Dict[Tuple[str, Origin], Item]] = {}
        for r in roots:
            self.summ.setdefault(r, {})
        rounds = 0
        changed = True
        while changed:
            changed = False
            rounds += 1
            if rounds > 80:
                raise AnalysisError("escape analysis did not converge")
            for (key, ctxt) in list(self.summ.keys()):
                before_pairs = len(self.summ)
                new = self._block(key, ctxt, self.funcs[key].body)
                cur = self.summ[(key, ctxt)]
                for k, item in new.items():
                    if k not in cur:
                        changed = True
                        cur[k] = item
                    elif len(item.chain) < len(cur[k].chain):
                        cur[k] = item
                if len(self.summ) != before_pairs:
                    changed = True
        self.contexts = len(self.summ)

    def escapes(self, key: FuncKey, ctxt: tuple = ()) -> Dict[Tuple[str, Origin], Item]:
        return self.summ.get((key, ctxt), {})

    # -- contexts
    def _call_ctxt(self, callee: FuncKey, call: ast.Call, caller_facts: Optional[Dict[str, tuple]] = None) -> tuple:
        fn = self.funcs[callee]
        params = [a.arg for a in fn.args.posonlyargs + fn.args.args]
        if params and params[0] in ("self", "cls"):
            params = params[1:]
        defaults = fn.args.defaults
        with_default = dict(zip([a.arg for a in (fn.args.posonlyargs + fn.args.args)][-len(defaults):] if defaults else [], defaults))
        facts = {}
        supplied = set()
        if any(isinstance(a, ast.Starred) for a in call.args) or any(k.arg is None for k in call.keywords):
            return ()
        cf = caller_facts or {}
        for p, a in zip(params, call.args):
            supplied.add(p)
            f = _fact(a) or (cf.get(a.id) if isinstance(a, ast.Name) else None)
            if f is not None:
                facts[p] = f
        for k in call.keywords:
            supplied.add(k.arg)
            f = _fact(k.value) or (cf.get(k.value.id) if isinstance(k.value, ast.Name) else None)
            if f is not None and k.arg in params:
                facts[k.arg] = f
        for p in params:
            if p not in supplied and p in with_default and isinstance(with_default[p], ast.Constant):
                facts[p] = ("const", with_default[p].value)
        return tuple(sorted(facts.items()))

    def _decide(self, test: ast.AST, facts: Dict[str, tuple]) -> Optional[bool]:
        if isinstance(test, ast.UnaryOp) and isinstance(test.op, ast.Not):
            v = self._decide(test.operand, facts)
            return None if v is None else (not v)
        if isinstance(test, ast.BoolOp):
            vals = [self._decide(v, facts) for v in test.values]
            if isinstance(test.op, ast.And):
                if any(v is False for v in vals):
                    return False
                return True if all(v is True for v in vals) else None
            if any(v is True for v in vals):
                return True
            return False if all(v is False for v in vals) else None
        if isinstance(test, ast.Call) and isinstance(test.func, ast.Name) and test.func.id == "isinstance" and len(test.args) == 2 and isinstance(test.args[0], ast.Name):
            f = facts.get(test.args[0].id)
            if f is None:
                return None
            names = test.args[1].elts if isinstance(test.args[1], ast.Tuple) else [test.args[1]]
            wanted = {(dotted(n) or "?").split(".")[-1] for n in names}
            if f[0] == "type":
                return f[1] in wanted
            if f[0] == "const" and f[1] is None:
                return False
            return None
        if isinstance(test, ast.Compare) and len(test.ops) == 1 and isinstance(test.left, ast.Name) and isinstance(test.comparators[0], ast.Constant) and test.comparators[0].value is None:
            f = facts.get(test.left.id)
            if f is None:
                return None
            is_none = f[0] == "const" and f[1] is None
            if f[0] == "const" or f[0] == "type":
                if isinstance(test.ops[0], ast.Is):
                    return is_none
                if isinstance(test.ops[0], ast.IsNot):
                    return not is_none
        return None

    def _stmt_items(self, key: FuncKey, ctxt: tuple, host: ast.AST) -> Dict[Tuple[str, Origin], Item]:
        out: Dict[Tuple[str, Origin], Item] = {}
        prims = self.primitives(key)
        here = f"{key[0]}:{key[1]}"
        for exc, origin in prims.get(id(host), []):
            out[(exc, origin)] = Item(exc, origin, (here,))
        probe = _probe(host)
        if probe is None:
            return out
        nodes = probe if isinstance(probe, list) else [probe]
        for p in nodes:
            for c in ast.walk(p):
                if not isinstance(c, ast.Call):
                    continue
                if isinstance(c.func, ast.Name) and c.func.id == "next" and c.args:
                    shape_entry = self._lib_entry(key, f"next({norm(c.args[0])})")
                    if shape_entry:
                        for exc in shape_entry[0]:
                            origin = Origin(key, f"next({norm(c.args[0])})", "library", c.lineno, shape_entry[1])
                            if (key, origin.construct, exc) not in self.exempt:
                                out[(exc, origin)] = Item(exc, origin, (here,))
                    continue
                self.total_calls += 1
                callees, lib = self.resolve_call(key, c)
                if self.refine is not None:
                    callees = self.refine(key, c, callees)
                if callees or lib is not None:
                    self.resolved_calls += 1
                else:
                    s = callee_shape(c.func) or norm(c.func)
                    self.unresolved[s] = self.unresolved.get(s, 0) + 1
                if lib is not None:
                    shape = callee_shape(c.func)
                    for exc in lib[0]:
                        ex_key = (key, shape, exc)
                        if ex_key in self.exempt or (key, shape, "*") in self.exempt:
                            ek = ex_key if ex_key in self.exempt else (key, shape, "*")
                            val = self.exempt[ek]
                            if not isinstance(val, tuple) or val[1](c):
                                self.used_exemptions.add(ek)
                                continue
                        origin = Origin(key, shape, "library", c.lineno, lib[1])
                        out[(exc, origin)] = Item(exc, origin, (here,))
                for callee in callees:
                    cc = self._call_ctxt(callee, c, dict(ctxt))
                    if (callee, cc) not in self.summ:
                        self.summ[(callee, cc)] = {}
                    for (exc, origin), item in self.summ[(callee, cc)].items():
                        k = (exc, origin)
                        chain = (here,) + item.chain
                        if k not in out or len(chain) < len(out[k].chain):
                            out[k] = Item(exc, origin, chain)
        return out

    def _lib_entry(self, key: FuncKey, shape: str):
        for tk in ((key[0], key[1]), (key[0], self.cls_of(key) or ""), ("*", "*")):
            lr = self.lib_raisers.get(tk, {})
            if shape in lr:
                return lr[shape]
        return None

    def _block(self, key: FuncKey, ctxt: tuple, stmts: Sequence[ast.stmt]) -> Dict[Tuple[str, Origin], Item]:
        out: Dict[Tuple[str, Origin], Item] = {}
        for s in stmts:
            out.update(self._stmt(key, ctxt, s))
            if isinstance(s, ast.If):
                # an if whose decided branch always leaves the function ends the block
                d = self._decide(s.test, dict(ctxt))
                branch = s.body if d is True else (s.orelse if d is False else None)
                if branch and isinstance(branch[-1], (ast.Return, ast.Raise)):
                    break
        return out

    def _stmt(self, key: FuncKey, ctxt: tuple, s: ast.stmt) -> Dict[Tuple[str, Origin], Item]:
        mod = key[0]
        if isinstance(s, FuncT + (ast.ClassDef,)):
            return {}
        if isinstance(s, ast.If):
            d = self._decide(s.test, dict(ctxt))
            out = self._stmt_items(key, ctxt, s)
            if d is not False:
                out.update(self._block(key, ctxt, s.body))
            if d is not True:
                out.update(self._block(key, ctxt, s.orelse))
            return out
        if isinstance(s, (ast.While, ast.For, ast.AsyncFor)):
            out = self._stmt_items(key, ctxt, s)
            out.update(self._block(key, ctxt, s.body))
            out.update(self._block(key, ctxt, s.orelse))
            return out
        if isinstance(s, (ast.With, ast.AsyncWith)):
            out = self._stmt_items(key, ctxt, s)
            out.update(self._block(key, ctxt, s.body))
            return out
        if isinstance(s, ast.Try):
            body = self._block(key, ctxt, s.body)
            out: Dict[Tuple[str, Origin], Item] = {}
            remaining = dict(body)
            for h in s.handlers:
                types: List[Optional[str]] = []
                if h.type is None:
                    types = [None]
                else:
                    for t in h.type.elts if isinstance(h.type, ast.Tuple) else [h.type]:
                        q = self.h.resolve(t, mod)
                        types.append(q if q is not None else f"?{norm(t)}")
                caught = {}
                for k, item in list(remaining.items()):
                    for t in types:
                        if t is None or (not t.startswith("?") and self.h.issub(item.exc, t)):
                            caught[k] = item
                            del remaining[k]
                            break
                # a handler for repository-defined exception classes only runs if such an exception
                # can actually arrive from the try body in this calling context
                only_repo = bool(types) and all(t is not None and t.startswith("repo:") for t in types)
                if only_repo and not caught:
                    continue
                hb = self._block(key, ctxt, h.body)
                out.update(hb)
                if any(isinstance(n, ast.Raise) and n.exc is None for st in h.body for n in ast.walk(st)):
                    out.update(caught)
                if h.name and any(isinstance(n, ast.Raise) and isinstance(n.exc, ast.Name) and n.exc.id == h.name for st in h.body for n in ast.walk(st)):
                    out.update(caught)
            out.update(remaining)
            out.update(self._block(key, ctxt, s.orelse))
            out.update(self._block(key, ctxt, s.finalbody))
            return out
        return self._stmt_items(key, ctxt, s)


def _fact(a: ast.AST):
    if isinstance(a, ast.Constant) and a.value is None:
        return ("const", None)
    if isinstance(a, ast.Call):
        d = dotted(a.func)
        if d and d.split(".")[-1][:1].isupper():
            return ("type", d.split(".")[-1])
    return None


def _hosts(fn: ast.AST) -> Iterable[ast.AST]:
    """Statements that own expressions: simple statements and the heads of compound ones."""
    for n in walk_local(fn):
        if isinstance(n, ast.stmt) and not isinstance(n, FuncT + (ast.ClassDef,)):
            yield n


def _probe(host: ast.AST):
    """The expression(s) evaluated at this host itself (not its nested blocks)."""
    if isinstance(host, (ast.If, ast.While)):
        return host.test
    if isinstance(host, (ast.For, ast.AsyncFor)):
        return [host.iter]
    if isinstance(host, (ast.With, ast.AsyncWith)):
        return [i.context_expr for i in host.items]
    if isinstance(host, ast.Try):
        return None
    if isinstance(host, FuncT + (ast.ClassDef,)):
        return None
    return host


def _stored_before(fn: ast.AST, host: ast.AST, sub: ast.Subscript) -> bool:
    """Was the same table entry stored earlier in this function on every path (simple: earlier unconditional sibling)?"""
    target = norm(sub)
    for n in walk_local(fn):
        if isinstance(n, ast.Assign) and n.lineno < host.lineno:
            for t in n.targets:
                if norm(t) == target:
                    return True
    return False


# ----------------------------------------------------------------------------- library signature conformance


def signature_mismatches(repo: Repo, modules: Sequence[str], attr_types: Dict[Tuple[str, str, str], Tuple[str, str]]):
    """Yield (module, qualname, call, callee description, error) for calls that cannot bind."""
    h = Hierarchy(repo)
    checked = 0
    bad = []
    for mod, q, fn in repo.all_functions():
        if mod not in modules:
            continue
        cls = q.split(".")[0] if "." in q else ""
        for c in calls(fn):
            obj = h.resolve_obj(c.func, mod)
            desc = dotted(c.func)
            if obj is None and isinstance(c.func, ast.Attribute):
                recv = dotted(c.func.value)
                if recv and (mod, cls, recv) in attr_types:
                    tmod, tname = attr_types[(mod, cls, recv)]
                    tobj = Hierarchy._import_obj(tmod, tname.split("."))
                    if tobj is not None and hasattr(tobj, c.func.attr):
                        obj = getattr(tobj, c.func.attr)
                        desc = f"{tmod}.{tname}.{c.func.attr}"
                        bound_method = True
                    else:
                        if tobj is not None:
                            bad.append((mod, q, c, f"{tmod}.{tname}.{c.func.attr}", "no such attribute in the installed library"))
                            checked += 1
                        continue
                else:
                    continue
                try:
                    sig = inspect.signature(obj)
                except (TypeError, ValueError):
                    continue
                params = list(sig.parameters.values())[1:]  # drop self
                sig = sig.replace(parameters=params)
            elif obj is not None and callable(obj):
                try:
                    sig = inspect.signature(obj)
                except (TypeError, ValueError):
                    continue
            else:
                continue
            if any(isinstance(a, ast.Starred) for a in c.args) or any(k.arg is None for k in c.keywords):
                continue
            checked += 1
            try:
                sig.bind(*[object()] * len(c.args), **{k.arg: object() for k in c.keywords})
            except TypeError as error:
                bad.append((mod, q, c, desc, str(error)))
    return checked, bad
