"""Statement-level control-flow graph for one function, with exceptional edges.

Finally blocks (and with-exits) are copied once per continuation kind (normal, raise,
return, break, continue), so paths through the graph are the paths of the program
under the over-approximation "any statement containing a call / await / subscript /
raise / assert may raise, and an exception may match any handler of the innermost try
and (unless that try has a catch-all handler) also propagate outward".
"""
from __future__ import annotations

import ast
from collections import deque
from typing import Callable, Dict, Iterable, List, Optional, Sequence, Set, Tuple

from .astq import FuncT, norm
from .core import AnalysisError

Edge = Tuple[int, str]  # (pred node id, label)


class Node:
    __slots__ = ("id", "kind", "ast", "tag")

    def __init__(self, id: int, kind: str, node: Optional[ast.AST], tag: str = "") -> None:
        self.id = id
        self.kind = kind  # entry exit raise stmt test iter handler dispatch with_enter with_exit join
        self.ast = node
        self.tag = tag

    @property
    def line(self) -> int:
        return getattr(self.ast, "lineno", 0) if self.ast is not None else 0

    def __repr__(self) -> str:
        txt = ""
        if self.ast is not None:
            if self.kind in ("stmt", "test", "iter", "with_enter"):
                src = self.ast
                if self.kind == "test":
                    src = self.ast.test  # type: ignore[attr-defined]
                elif self.kind == "iter":
                    src = self.ast.iter  # type: ignore[attr-defined]
                elif self.kind == "with_enter":
                    src = self.ast.items[0].context_expr  # type: ignore[attr-defined]
                txt = norm(src).split("\n")[0][:70]
        return f"<{self.id}:{self.kind}{':' + self.tag if self.tag else ''} L{self.line} {txt}>"


class _Frame:
    def __init__(self, kind: str, outer: Tuple["_Frame", ...]) -> None:
        self.kind = kind  # func loop try_except try_finally
        self.outer = outer
        # loop
        self.head: Optional[int] = None
        self.breaks: List[Edge] = []
        # try_except
        self.try_node: Optional[ast.Try] = None
        self.dispatch: Optional[int] = None
        self.catch_all = False
        # try_finally
        self.final_builder: Optional[Callable[[List[Edge], Tuple["_Frame", ...], str], List[Edge]]] = None
        self.copies: Dict[str, int] = {}


def default_may_raise(node: ast.AST) -> bool:
    for n in ast.walk(node):
        if isinstance(n, (ast.Call, ast.Await, ast.Subscript, ast.Raise, ast.Assert)):
            return True
    return False


class CFG:
    def __init__(
        self,
        func: ast.AST,
        may_raise: Callable[[ast.AST], bool] = default_may_raise,
        catchall_names: Iterable[str] = ("BaseException",),
    ) -> None:
        if not isinstance(func, FuncT):
            raise AnalysisError("CFG needs a function definition")
        self.func = func
        self.may_raise = may_raise
        self.catchall_names = set(catchall_names)
        self.nodes: List[Node] = []
        self.succ: Dict[int, List[Tuple[int, str]]] = {}
        self.pred: Dict[int, List[Tuple[int, str]]] = {}
        self.entry = self._new("entry", None)
        self.exit = self._new("exit", None)
        self.raise_exit = self._new("raise", None)
        root = _Frame("func", ())
        front = self._block(func.body, [(self.entry, "next")], (root,))
        self._connect(front, self.exit)

    # ------------------------------------------------------------------ construction
    def _new(self, kind: str, node: Optional[ast.AST], tag: str = "") -> int:
        n = Node(len(self.nodes), kind, node, tag)
        self.nodes.append(n)
        self.succ[n.id] = []
        self.pred[n.id] = []
        return n.id

    def _connect(self, preds: Sequence[Edge], target: int) -> None:
        for p, label in preds:
            if (target, label) not in self.succ[p]:
                self.succ[p].append((target, label))
                self.pred[target].append((p, label))

    def _raise_from(self, nid: int, frames: Tuple[_Frame, ...]) -> None:
        self._jump("raise", [(nid, "exc")], frames)

    def _jump(self, kind: str, preds: List[Edge], frames: Tuple[_Frame, ...]) -> None:
        if not preds:
            return
        for i in range(len(frames) - 1, -1, -1):
            f = frames[i]
            if f.kind == "try_except" and kind == "raise":
                if f.dispatch is None:
                    f.dispatch = self._new("dispatch", f.try_node)
                    if not f.catch_all:
                        self._jump("raise", [(f.dispatch, "uncaught")], f.outer)
                self._connect(preds, f.dispatch)
                return
            if f.kind == "try_finally":
                if kind not in f.copies:
                    join = self._new("join", None, f"finally:{kind}")
                    f.copies[kind] = join
                    assert f.final_builder is not None
                    front = f.final_builder([(join, "next")], f.outer, kind)
                    self._jump(kind, front, f.outer)
                self._connect(preds, f.copies[kind])
                return
            if f.kind == "loop":
                if kind == "break":
                    f.breaks.extend(preds)
                    return
                if kind == "continue":
                    assert f.head is not None
                    self._connect(preds, f.head)
                    return
            if f.kind == "func":
                if kind == "return":
                    self._connect(preds, self.exit)
                elif kind == "raise":
                    self._connect(preds, self.raise_exit)
                else:
                    raise AnalysisError(f"{kind} outside loop")
                return
        raise AnalysisError("jump without function frame")

    def _block(self, stmts: Sequence[ast.stmt], preds: List[Edge], frames: Tuple[_Frame, ...]) -> List[Edge]:
        for s in stmts:
            preds = self._stmt(s, preds, frames)
        return preds

    def _simple(self, s: ast.AST, kind: str, preds: List[Edge], frames: Tuple[_Frame, ...], probe: Optional[ast.AST] = None) -> int:
        nid = self._new(kind, s)
        self._connect(preds, nid)
        if self.may_raise(probe if probe is not None else s):
            self._raise_from(nid, frames)
        return nid

    def _stmt(self, s: ast.stmt, preds: List[Edge], frames: Tuple[_Frame, ...]) -> List[Edge]:
        if isinstance(s, FuncT + (ast.ClassDef,)):
            nid = self._new("stmt", s, "def")
            self._connect(preds, nid)
            return [(nid, "next")]
        if isinstance(s, ast.Return):
            nid = self._simple(s, "stmt", preds, frames)
            self._jump("return", [(nid, "return")], frames)
            return []
        if isinstance(s, ast.Raise):
            nid = self._new("stmt", s)
            self._connect(preds, nid)
            self._jump("raise", [(nid, "exc")], frames)
            return []
        if isinstance(s, ast.Break):
            nid = self._new("stmt", s)
            self._connect(preds, nid)
            self._jump("break", [(nid, "break")], frames)
            return []
        if isinstance(s, ast.Continue):
            nid = self._new("stmt", s)
            self._connect(preds, nid)
            self._jump("continue", [(nid, "continue")], frames)
            return []
        if isinstance(s, ast.If):
            t = self._simple(s, "test", preds, frames, probe=s.test)
            a = self._block(s.body, [(t, "T")], frames)
            b = self._block(s.orelse, [(t, "F")], frames) if s.orelse else [(t, "F")]
            return a + b
        if isinstance(s, ast.While):
            t = self._simple(s, "test", preds, frames, probe=s.test)
            loop = _Frame("loop", frames)
            loop.head = t
            body = self._block(s.body, [(t, "T")], frames + (loop,))
            self._connect(body, t)
            const_true = isinstance(s.test, ast.Constant) and bool(s.test.value)
            after: List[Edge] = [] if const_true else [(t, "F")]
            if s.orelse:
                after = self._block(s.orelse, after, frames)
            return after + loop.breaks
        if isinstance(s, (ast.For, ast.AsyncFor)):
            t = self._new("iter", s)
            self._connect(preds, t)
            self._raise_from(t, frames)
            loop = _Frame("loop", frames)
            loop.head = t
            body = self._block(s.body, [(t, "loop")], frames + (loop,))
            self._connect(body, t)
            after = [(t, "done")]
            if s.orelse:
                after = self._block(s.orelse, after, frames)
            return after + loop.breaks
        if isinstance(s, (ast.With, ast.AsyncWith)):
            enter = self._new("with_enter", s)
            self._connect(preds, enter)
            self._raise_from(enter, frames)
            tf = _Frame("try_finally", frames)

            def build_exit(p: List[Edge], outer: Tuple[_Frame, ...], kind: str, _s=s) -> List[Edge]:
                x = self._new("with_exit", _s, kind)
                self._connect(p, x)
                return [(x, "next")]

            tf.final_builder = build_exit
            body = self._block(s.body, [(enter, "next")], frames + (tf,))
            return build_exit(body, frames, "normal") if body else []
        if isinstance(s, ast.Try) or (hasattr(ast, "TryStar") and isinstance(s, getattr(ast, "TryStar"))):
            inner = frames
            tf: Optional[_Frame] = None
            if s.finalbody:
                tf = _Frame("try_finally", frames)

                def build_final(p: List[Edge], outer: Tuple[_Frame, ...], kind: str, _s=s) -> List[Edge]:
                    return self._block(_s.finalbody, p, outer)

                tf.final_builder = build_final
                inner = frames + (tf,)
            te: Optional[_Frame] = None
            if s.handlers:
                te = _Frame("try_except", inner)
                te.try_node = s
                te.catch_all = any(self._is_catch_all(h) for h in s.handlers)
                body = self._block(s.body, preds, inner + (te,))
            else:
                body = self._block(s.body, preds, inner)
            if s.orelse:
                body = self._block(s.orelse, body, inner)
            front = list(body)
            if te is not None and te.dispatch is not None:
                for h in s.handlers:
                    hn = self._new("handler", h)
                    self._connect([(te.dispatch, "catch")], hn)
                    front += self._block(h.body, [(hn, "next")], inner)
            if tf is not None:
                assert tf.final_builder is not None
                return tf.final_builder(front, frames, "normal") if front else []
            return front
        if isinstance(s, ast.Match):
            raise AnalysisError("match statements are not supported by the CFG builder")
        # simple statement
        nid = self._simple(s, "stmt", preds, frames)
        return [(nid, "next")]

    def _is_catch_all(self, h: ast.ExceptHandler) -> bool:
        if h.type is None:
            return True
        types = h.type.elts if isinstance(h.type, ast.Tuple) else [h.type]
        for t in types:
            name = norm(t).split(".")[-1]
            if name in self.catchall_names:
                return True
        return False

    # ------------------------------------------------------------------ queries
    def node(self, nid: int) -> Node:
        return self.nodes[nid]

    def nodes_of(self, stmt: ast.AST) -> List[int]:
        return [n.id for n in self.nodes if n.ast is stmt and n.kind not in ("with_exit", "dispatch", "handler")]

    def where(self, pred: Callable[[Node], bool]) -> List[int]:
        return [n.id for n in self.nodes if pred(n)]

    def reach(
        self,
        starts: Iterable[int],
        avoid: Optional[Callable[[Node], bool]] = None,
        skip_labels: Iterable[str] = (),
        include_starts: bool = False,
    ) -> Set[int]:
        """Nodes reachable from the successors of ``starts`` without entering an avoided node."""
        skip = set(skip_labels)
        seen: Set[int] = set()
        dq = deque()
        for s in starts:
            if include_starts:
                if avoid is None or not avoid(self.nodes[s]):
                    seen.add(s)
                    dq.append(s)
            else:
                dq.append(s)
        first = set(starts) if not include_starts else set()
        while dq:
            n = dq.popleft()
            for m, label in self.succ[n]:
                if label in skip:
                    continue
                if m in seen:
                    continue
                if avoid is not None and avoid(self.nodes[m]):
                    continue
                seen.add(m)
                dq.append(m)
        return seen

    def path(self, start: int, goals: Set[int], avoid: Optional[Callable[[Node], bool]] = None, skip_labels: Iterable[str] = ()) -> Optional[List[int]]:
        skip = set(skip_labels)
        prev: Dict[int, int] = {}
        dq = deque([start])
        seen = {start}
        while dq:
            n = dq.popleft()
            for m, label in self.succ[n]:
                if label in skip or m in seen:
                    continue
                if avoid is not None and avoid(self.nodes[m]):
                    continue
                prev[m] = n
                if m in goals:
                    out = [m]
                    while out[-1] != start:
                        out.append(prev[out[-1]])
                    return list(reversed(out))
                seen.add(m)
                dq.append(m)
        return None

    def must_pass(
        self,
        start: int,
        goals: Iterable[int],
        through: Callable[[Node], bool],
        skip_labels: Iterable[str] = (),
    ) -> Optional[List[int]]:
        """None if every path start ->* goal passes a ``through`` node; else a witness path."""
        return self.path(start, set(goals), avoid=through, skip_labels=skip_labels)

    def dominates(self, a_pred: Callable[[Node], bool], b: int, skip_labels: Iterable[str] = ()) -> bool:
        """Every path entry ->* b passes through a node satisfying a_pred (b itself excluded)."""
        if a_pred(self.nodes[b]):
            return True
        return b not in self.reach([self.entry], avoid=a_pred, skip_labels=skip_labels)

    def describe(self, path: Optional[Sequence[int]]) -> List[str]:
        if not path:
            return []
        return [repr(self.nodes[i]) for i in path]

    def exits(self, normal: bool = True, exceptional: bool = True) -> List[int]:
        out = []
        if normal:
            out.append(self.exit)
        if exceptional:
            out.append(self.raise_exit)
        return out


def stmt_has(node: Node, pred: Callable[[ast.AST], bool]) -> bool:
    """Does the code evaluated *at this CFG node* contain an ast node satisfying pred?"""
    if node.ast is None:
        return False
    if node.kind == "stmt":
        root: Optional[ast.AST] = node.ast
        if isinstance(root, FuncT + (ast.ClassDef,)):
            return False
    elif node.kind == "test":
        root = node.ast.test  # type: ignore[attr-defined]
    elif node.kind == "iter":
        root = node.ast.iter  # type: ignore[attr-defined]
    elif node.kind == "with_enter":
        for item in node.ast.items:  # type: ignore[attr-defined]
            for n in ast.walk(item.context_expr):
                if pred(n):
                    return True
        return False
    else:
        return False
    for n in ast.walk(root):
        if pred(n):
            return True
    return False


def feasible_paths(
    cfg: "CFG",
    start: int,
    tracked: Iterable[str],
    env0: Optional[dict] = None,
    max_visits: int = 2,
    skip_labels: Iterable[str] = ("exc", "uncaught", "catch"),
    limit: int = 20000,
):
    """Enumerate paths start ->* (exit | raise) keeping constant values of `tracked` local names.

    A branch whose test evaluates to a constant under the tracked values is followed only in
    that direction (flag protocols such as `first = True ... if first: ...; first = False`).
    Loops are unrolled: every node is visited at most `max_visits` times per path.
    """
    from .pred import Unknown, eval_expr

    tracked = set(tracked)
    skip = set(skip_labels)
    out: List[List[int]] = []
    stack = [(start, dict(env0 or {}), [start], {start: 1})]
    ends = {cfg.exit, cfg.raise_exit}
    while stack:
        nid, env, path, visits = stack.pop()
        if len(out) > limit:
            raise AnalysisError("feasible_paths: path limit exceeded")
        if nid in ends:
            out.append(path)
            continue
        node = cfg.nodes[nid]
        env = dict(env)
        if node.kind == "stmt" and isinstance(node.ast, ast.Assign) and len(node.ast.targets) == 1 and isinstance(node.ast.targets[0], ast.Name) and node.ast.targets[0].id in tracked:
            try:
                env[node.ast.targets[0].id] = eval_expr(node.ast.value, env)
            except Unknown:
                env.pop(node.ast.targets[0].id, None)
        elif node.kind == "stmt" and node.ast is not None:
            # any other binding of a tracked name makes it unknown
            for n in ast.walk(node.ast):
                if isinstance(n, ast.Name) and isinstance(n.ctx, ast.Store) and n.id in tracked:
                    env.pop(n.id, None)
        decided = None
        if node.kind == "test":
            try:
                decided = "T" if eval_expr(node.ast.test, {k: v for k, v in env.items()}) else "F"
            except Unknown:
                decided = None
        succs = cfg.succ[nid]
        if not succs and nid not in ends:
            out.append(path)
        for m, label in succs:
            if label in skip:
                continue
            if decided is not None and label in ("T", "F") and label != decided:
                continue
            if visits.get(m, 0) >= max_visits:
                continue
            v2 = dict(visits)
            v2[m] = v2.get(m, 0) + 1
            stack.append((m, env, path + [m], v2))
    return out
