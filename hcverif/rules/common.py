"""Helpers shared by the per-property rule modules."""
from __future__ import annotations

import ast
from typing import Callable, Dict, Iterable, List, Optional, Sequence, Set, Tuple

from ..astq import FuncT, call_name, callee_shape, calls, dotted, norm, walk_local
from ..cfg import CFG, Node, stmt_has
from ..core import AnalysisError, Ctx


def node_calls(node: Node) -> List[ast.Call]:
    out: List[ast.Call] = []
    stmt_has(node, lambda n: out.append(n) or False if isinstance(n, ast.Call) else False)
    return out


def has_call(*names: str, suffix: bool = False) -> Callable[[Node], bool]:
    """CFG-node predicate: evaluates a call whose (shape) name is one of names."""
    want = set(names)

    def pred(node: Node) -> bool:
        def is_it(n: ast.AST) -> bool:
            if not isinstance(n, ast.Call):
                return False
            d = call_name(n) or callee_shape(n.func)
            if d is None:
                return False
            if d in want:
                return True
            if suffix:
                return any(d.endswith("." + w) or d == w for w in want)
            return False

        return stmt_has(node, is_it)

    return pred


def has_stmt(pred_ast: Callable[[ast.AST], bool]) -> Callable[[Node], bool]:
    return lambda node: stmt_has(node, pred_ast)


def nodes_with_call(cfg: CFG, *names: str, suffix: bool = False) -> List[int]:
    p = has_call(*names, suffix=suffix)
    return cfg.where(p)


def qual(module: str, name: str) -> str:
    return f"{module}:{name}"


def event_ctor(call: ast.Call) -> Optional[str]:
    """Name of the class constructed (last dotted component) if call looks like Cls(...)."""
    d = dotted(call.func)
    if d is None:
        return None
    last = d.split(".")[-1]
    return last if last[:1].isupper() else None


def sends_of(func: ast.AST, sender: str = "self.send") -> List[Tuple[ast.Call, Optional[str], Optional[ast.Call]]]:
    """(send call, constructed event class, ctor call) for every `await self.send(Evt(...))`."""
    out = []
    for c in calls(func):
        if call_name(c) == sender and c.args:
            a = c.args[0]
            if isinstance(a, ast.Call):
                out.append((c, event_ctor(a), a))
            else:
                out.append((c, None, None))
    return out


def explain(cfg: CFG, path: Optional[Sequence[int]]) -> str:
    if not path:
        return ""
    return " -> ".join(cfg.describe(path)[:12])


def assigns_to(func: ast.AST, target: str) -> List[ast.stmt]:
    out = []
    for n in walk_local(func):
        if isinstance(n, ast.Assign):
            for t in n.targets:
                for e in (t.elts if isinstance(t, (ast.Tuple, ast.List)) else [t]):
                    if dotted(e) == target:
                        out.append(n)
        elif isinstance(n, (ast.AnnAssign, ast.AugAssign)):
            if dotted(n.target) == target and getattr(n, "value", None) is not None:
                out.append(n)
    return out


def arm_for(func: ast.AST, var: str, cls: str) -> Optional[ast.If]:
    """The `if/elif isinstance(var, <...cls...>)` statement whose test mentions cls."""
    for n in walk_local(func):
        if isinstance(n, ast.If):
            for sub in ast.walk(n.test):
                if isinstance(sub, ast.Call) and dotted(sub.func) == "isinstance" and len(sub.args) == 2 and norm(sub.args[0]) == var:
                    t = sub.args[1]
                    for e in t.elts if isinstance(t, ast.Tuple) else [t]:
                        d = dotted(e)
                        if d and d.split(".")[-1] == cls:
                            return n
    return None


def body_calls(stmts: Sequence[ast.stmt]) -> List[ast.Call]:
    out: List[ast.Call] = []
    for s in stmts:
        for n in ast.walk(s):
            if isinstance(n, ast.Call):
                out.append(n)
    out.sort(key=lambda c: (c.lineno, c.col_offset))
    return out


def find_in(stmts: Sequence[ast.stmt], *names: str) -> List[ast.Call]:
    want = set(names)
    return [c for c in body_calls(stmts) if (call_name(c) or callee_shape(c.func)) in want]


def value_slice(stmts, match, value_of, tail=None, returns=None):
    """A synthetic function body computing `value_of(call)` of the first call matching `match` that
    the statements reach: control structure (if/elif/else) and assignments to plain locals are
    kept, matching calls become `return <value>`, everything else is dropped.  Interpreted with
    pred.eval_function to tabulate the value as a function of the guards' inputs."""
    import copy

    def conv(block):
        out = []
        for st in block:
            if isinstance(st, ast.If):
                out.append(ast.If(test=copy.deepcopy(st.test), body=conv(st.body) or [ast.Pass()], orelse=conv(st.orelse)))
            elif isinstance(st, (ast.Assign, ast.AnnAssign)) and all(isinstance(t, ast.Name) for t in (st.targets if isinstance(st, ast.Assign) else [st.target])) and getattr(st, "value", None) is not None and not any(isinstance(x, ast.Await) for x in ast.walk(st)):
                out.append(copy.deepcopy(st))
            elif isinstance(st, ast.Raise):
                out.append(copy.deepcopy(st))
            elif isinstance(st, ast.Return) and not [c for c in ast.walk(st) if isinstance(c, ast.Call) and match(c)]:
                if returns is not None:
                    out.append(ast.Return(value=ast.Constant(value=returns)))
            else:
                hits = [c for c in ast.walk(st) if isinstance(c, ast.Call) and match(c)]
                if hits:
                    out.append(ast.Return(value=copy.deepcopy(value_of(hits[0]))))
        return out

    fn = ast.FunctionDef(name="slice", args=ast.arguments(posonlyargs=[], args=[], kwonlyargs=[], kw_defaults=[], defaults=[]), body=conv(stmts) + [ast.Return(value=tail if tail is not None else ast.Constant(value="<no emission>"))], decorator_list=[], lineno=0)
    ast.fix_missing_locations(fn)
    return fn


def test_between(g, start_ids, goal_pred):
    """First `test` node reachable from any of start_ids (normal edges only) before a node
    satisfying goal_pred is reached; None when every such path reaches the goal untested.
    Returns the string "unreached" when the goal is not reachable at all."""
    seen, todo, reached = set(), [], False
    for s_ in start_ids:
        todo += [m for m, lab in g.succ[s_] if lab not in ("exc", "uncaught", "catch")]
    while todo:
        cur = todo.pop()
        if cur in seen:
            continue
        seen.add(cur)
        nd = g.node(cur)
        if goal_pred(nd):
            reached = True
            continue
        if nd.kind == "test":
            return nd
        todo += [m for m, lab in g.succ[cur] if lab not in ("exc", "uncaught", "catch")]
    return None if reached else "unreached"
