"""C07 — idle time-out, busy protection, release of dead connections (structural clauses)."""
from __future__ import annotations

import ast
from typing import List, Optional

from ..astq import ancestors, arg, call_name, calls, dotted, find_calls, guard_atoms, guards, kwarg, norm, provenance, walk_local, local_defs
from ..cfg import CFG, stmt_has
from ..core import Ctx
from ..pred import Unknown, eval_expr
from .common import arm_for, explain, find_in, has_call, has_stmt


def is_send_updated(idle: Optional[str] = None):
    def pred_ast(n: ast.AST) -> bool:
        if isinstance(n, ast.Call) and call_name(n) == "self.send" and n.args and isinstance(n.args[0], ast.Call) and call_name(n.args[0]) == "Updated":
            if idle is None:
                return True
            v = kwarg(n.args[0], "idle") or (n.args[0].args[0] if n.args[0].args else None)
            return v is not None and norm(v) == idle
        return False

    return lambda node: stmt_has(node, pred_ast)


def updated_calls(fn: ast.AST) -> List[ast.Call]:
    return [c for c in calls(fn) if call_name(c) == "self.send" and c.args and isinstance(c.args[0], ast.Call) and call_name(c.args[0]) == "Updated"]


def _is_idle_predicate(fn) -> bool:
    """Does fn(stream table) equal 'no streams, or every stream idle' on the sample tables?"""
    from ..pred import Rec

    T, F = Rec(idle=True), Rec(idle=False)
    for smp in ({}, {1: T}, {1: F}, {1: T, 3: F}, {1: F, 3: T}, {1: T, 3: T}, {1: F, 3: F}):
        try:
            got = fn(smp)
        except Exception:
            return False
        if bool(got) is not all(x.fields["idle"] for x in smp.values()) or not isinstance(got, bool):
            return False
    return True


def run(ctx: Ctx) -> None:
    if getattr(ctx, "_depth", 0) >= 2:
        return  # alias of an alias: not followed (breaks import cycles between rule modules)
    repo = ctx.repo
    ctx.rule("C07.R1", "idle signalling: HTTP/1 announces busy (Updated(idle=False)) first thing in the request arm and idle after recycling; HTTP/2 announces busy after creating a stream and, after every removal of a stream (StreamClosed, RST_STREAM), announces the idleness recomputed AFTER the removal", floor=6)
    ctx.rule("C07.R3", "terminal release: handle(Closed) sets every event its reader / send task can be parked on, and the parking loops re-test a flag written by the Closed arm", floor=3)
    ctx.rule("C07.R4", "the transport is closed in a finally block that covers the connection's task group (both workers)", floor=2)
    ctx.rule("C07.R5", "after the read loop ends (peer gone) the idle timer is stopped before the task group is left, so the handler does not linger for keep_alive_timeout", floor=2)
    ctx.rule("C07.R6", "_idle_timeout waits for `terminated` at most keep_alive_timeout and then ALWAYS runs the shielded server close, which tells the protocol Closed and closes the transport", floor=6)
    ctx.rule("C07.R7", "idle predicates: HTTPStream never idle; WSStream idle iff state in {CLOSED, HTTPCLOSED}; H2 connection idle iff no streams or all streams idle", floor=3)
    ctx.rule("C07.R8", "protocol_send(Updated): idle -> restart the timer, busy -> stop it; the timer is armed before the first read (both workers); restart/stop cancel the previous timer task", floor=8)

    # ---------------- R1
    M11, M2 = "protocol.h11", "protocol.h2"
    he = repo.func(M11, "H11Protocol._handle_events")
    g = CFG(he)
    req = [n for n in walk_local(he) if isinstance(n, ast.If) and "isinstance(event, h11.Request)" in norm(n.test)]
    ctx.need(len(req) == 1, "h11 Request arm not found")
    first = req[0].body[0]
    ok = isinstance(first, ast.Expr) and "self.send(Updated(idle=False))" in norm(first)
    ctx.check("C07.R1", f"{M11}:H11Protocol._handle_events", "Request arm starts with Updated(idle=False)", ok, "the idle timer must be stopped before anything else happens for a new request head", first)
    mr = repo.func(M11, "H11Protocol._maybe_recycle")
    gm = CFG(mr)
    rec = gm.where(has_call("self.connection.start_next_cycle"))
    ok = bool(rec) and gm.must_pass(rec[0], [gm.exit], is_send_updated("True"), skip_labels=("exc",)) is None
    ctx.check("C07.R1", f"{M11}:H11Protocol._maybe_recycle", "recycled -> Updated(idle=True)", ok, "a recycled connection must re-arm the idle timer", mr)
    h2he = repo.func(M2, "H2Protocol._handle_events")
    cs = find_calls(h2he, "self._create_stream")
    g2 = CFG(h2he)
    csn = g2.where(has_call("self._create_stream"))
    ok = len(cs) == 1 and bool(csn)
    if ok:
        heads = [n.id for n in g2.nodes if n.kind == "iter"] + [g2.exit]
        ok = g2.must_pass(csn[0], heads, is_send_updated("False"), skip_labels=("exc", "uncaught")) is None
    ctx.check("C07.R1", f"{M2}:H2Protocol._handle_events", "stream created -> Updated(idle=False)", ok, "opening a stream must stop the idle timer", cs[0] if cs else h2he)
    # every function that removes a stream (calls _close_stream) outside handle(Closed)
    n_sites = 0
    for name, fn in repo.methods(M2, "H2Protocol").items():
        sites = find_calls(fn, "self._close_stream")
        if not sites:
            continue
        gf = CFG(fn)
        for nid in gf.where(has_call("self._close_stream")):
            stmt = gf.node(nid).ast
            arm_closed = arm_for(fn, "event", "Closed")
            if arm_closed is not None and any(stmt is x for s in arm_closed.body for x in ast.walk(s)):
                continue  # connection is closing: no timer needed (exempt, see DESIGN C07.R1)
            n_sites += 1
            targets = [n.id for n in gf.nodes if n.kind == "iter"] + [gf.exit]
            wit = gf.must_pass(nid, targets, is_send_updated(None), skip_labels=("exc", "uncaught", "catch"))
            ctx.check("C07.R1", f"{M2}:H2Protocol.{name}", "stream removed -> Updated(idle=...) afterwards", wit is None, "a stream is removed without (re)announcing idleness afterwards: if it was the last one the connection is left without a keep-alive timer: " + explain(gf, wit), stmt)
            # the announced value must be computed after the removal
            for uc in updated_calls(fn):
                v = kwarg(uc.args[0], "idle") or (uc.args[0].args[0] if uc.args[0].args else None)
                if v is None or norm(v) in ("True", "False"):
                    continue
                if not any(uc is x for x in ast.walk(_enclosing_arm(stmt, fn))):
                    continue
                p = provenance(v, fn)
                fresh = "self.idle" in p.leaves or "self.streams" in p.leaves
                after = True
                if isinstance(v, ast.Name):
                    defs = [s for s in walk_local(fn) if isinstance(s, ast.Assign) and dotted(s.targets[0]) == v.id]
                    for d in defs:
                        for dn in gf.nodes_of(d):
                            if not gf.dominates(lambda n, _nid=nid: n.id == _nid, dn):
                                after = False
                un = [n for n in gf.where(is_send_updated(None)) if any(uc is x for x in ast.walk(gf.node(n).ast))]
                for u in un:
                    if not gf.dominates(lambda n, _nid=nid: n.id == _nid, u):
                        after = False
                idle_prop = repo.func(M2, "H2Protocol.idle")
                pr = [n for n in walk_local(idle_prop) if isinstance(n, ast.Return)]
                ref = norm(pr[0].value) if pr else "?"
                vexpr = v
                if isinstance(v, ast.Name):
                    defs_ = [s_ for s_ in walk_local(fn) if isinstance(s_, ast.Assign) and dotted(s_.targets[0]) == v.id]
                    vexpr = defs_[0].value if len(defs_) == 1 else v
                same = norm(vexpr) in ("self.idle", ref) or _is_idle_predicate(lambda smp, e=vexpr: eval_expr(e, {"self.streams": smp, "self.idle": all(x.fields["idle"] for x in smp.values())}))
                ctx.check("C07.R1", f"{M2}:H2Protocol.{name}", "announced idleness is the connection's idle predicate", same,
                          f"Updated(idle=...) is computed as `{norm(vexpr)}`, not as the connection's idle predicate `{ref}`: a connection whose remaining streams are all idle (closed WebSockets) is reported busy and never gets its keep-alive timer back", uc)
                ctx.check("C07.R1", f"{M2}:H2Protocol.{name}", "announced idleness is recomputed after the removal", fresh and after, f"Updated(idle={norm(v)}) is computed from {p} {'before' if not after else 'after'} the stream is removed: the closing stream still counts as busy", uc)
    ctx.need(n_sites >= 2, f"only {n_sites} stream-removal sites found in H2Protocol")

    # ---------------- R3
    hd2 = repo.func(M2, "H2Protocol.handle")
    arm = arm_for(hd2, "event", "Closed")
    ctx.need(arm is not None, "H2Protocol.handle: no Closed arm")
    ok = any(norm(s) == "self.closed = True" for s in arm.body) and len(find_in(arm.body, "self.has_data.set")) >= 1
    st = repo.func(M2, "H2Protocol.send_task")
    loops = [n for n in walk_local(st) if isinstance(n, ast.While)]
    ok = ok and len(loops) == 1 and norm(loops[0].test) == "not self.closed"
    cs_calls = find_in(arm.body, "self._close_stream")
    okc = len(cs_calls) == 1
    if okc:
        lp = [a for a in ancestors(cs_calls[0]) if isinstance(a, (ast.For, ast.AsyncFor))]
        okc = len(lp) >= 1 and "self.streams" in provenance(lp[0].iter, hd2).leaves and "self.stream_buffers" not in provenance(lp[0].iter, hd2).leaves and not guard_atoms(cs_calls[0], stop=lp[0])
    ctx.check("C07.R3", f"{M2}:H2Protocol.handle", "Closed: every stream in the stream table is closed (told StreamClosed)", okc, "the connection-closed path must walk self.streams: a stream whose send buffer is already gone (response fully sent, application still running) would never be told the client went away, and its task keeps the connection's task group open", cs_calls[0] if cs_calls else arm)
    ctx.check("C07.R3", f"{M2}:H2Protocol.handle", "Closed: closed=True, has_data.set(); send_task loops `while not self.closed`", ok, "the HTTP/2 send task would stay parked on has_data after the connection closed", arm)
    hd11 = repo.func(M11, "H11Protocol.handle")
    arm = arm_for(hd11, "event", "Closed")
    ctx.need(arm is not None, "H11Protocol.handle: no Closed arm")
    # the reader parks on can_read.wait() inside `while True`; Closed must release it and the loop must not re-park
    g11 = CFG(hd11)
    armtest = [n.id for n in g11.nodes if n.kind == "test" and n.ast is arm]
    released = False
    if armtest:
        starts = [m for m, lab in g11.succ[armtest[0]] if lab == "T"]
        released = bool(starts) and all(
            has_call("self.can_read.set")(g11.node(s)) or g11.must_pass(s, [g11.exit], has_call("self.can_read.set")) is None for s in starts
        )
    sets_anywhere = released or _reaches_call(repo, M11, "H11Protocol", arm.body, "self.can_read.set")
    ctx.check("C07.R3", f"{M11}:H11Protocol.handle", "Closed releases the parked reader (can_read.set())", bool(sets_anywhere),
              "handle(Closed) never sets can_read: a reader parked behind an unfinished pipelined request (PAUSED) is never released once that request's stream was closed, so the handler and socket outlive the connection", arm)
    wl = [n for n in walk_local(he) if isinstance(n, ast.While)]
    ok = len(wl) == 1
    ctx.check("C07.R3", f"{M11}:H11Protocol._handle_events", "single event loop", ok, "expected one event loop in _handle_events", he)

    # ---------------- R4 / R5 / R6 / R8 per worker
    for mod, close_calls, shield in (
        ("asyncio.tcp_server", ["self.writer.close"], "asyncio.shield"),
        ("trio.tcp_server", ["self.stream.aclose"], "trio.CancelScope"),
    ):
        run_ = repo.func(mod, "TCPServer.run")
        w = f"{mod}:TCPServer.run"
        gr = CFG(run_)
        tg = [n.id for n in gr.nodes if n.kind == "with_enter" and "TaskGroup(" in norm(n.ast.items[0].context_expr)]
        ctx.need(len(tg) == 1, f"{w}: task group not found")
        wit = gr.must_pass(tg[0], gr.exits(), has_call("self._close"))
        ctx.check("C07.R4", w, "task group -> (finally) _close() on every exit", wit is None, "an exit of the connection handler skips closing the transport: " + explain(gr, wit), run_)
        cl = repo.func(mod, "TCPServer._close")
        okc = len(find_calls(cl, *close_calls)) == 1 and not any(guard_atoms(c) for c in find_calls(cl, *close_calls))
        ctx.check("C07.R4", f"{mod}:TCPServer._close", "transport closed unconditionally", okc, "_close must close the transport", cl)
        # R5: between _read_data() returning and leaving the task group, idle_task.stop()
        rd = gr.where(has_call("self._read_data"))
        ctx.need(len(rd) == 1, f"{w}: _read_data call not found")
        wexit = [n.id for n in gr.nodes if n.kind == "with_exit" and n.tag == "normal" and "TaskGroup(" in norm(n.ast.items[0].context_expr)]
        wit = gr.must_pass(rd[0], wexit, has_call("self.idle_task.stop"), skip_labels=("exc",)) if wexit else [rd[0]]
        rdf = repo.func(mod, "TCPServer._read_data")
        grd = CFG(rdf)
        stops_in_read = grd.must_pass(grd.entry, [grd.exit], has_call("self.idle_task.stop")) is None
        ctx.check("C07.R5", w, "read loop ended -> idle_task.stop() before leaving the task group", wit is None or stops_in_read,
                  "after client EOF the task group waits for the idle timer task: the handler and the socket are held for keep_alive_timeout although the peer is gone", run_)
        closed_call = has_stmt(lambda n: isinstance(n, ast.Call) and call_name(n) == "self.protocol.handle" and n.args and "Closed()" in norm(n.args[0]))
        wit = grd.must_pass(grd.entry, [grd.exit], closed_call)
        ctx.check("C07.R3", f"{mod}:TCPServer._read_data", "every normal exit of the read loop tells the protocol Closed", wit is None, "the read loop can end without protocol.handle(Closed()): streams are never told the peer is gone: " + explain(grd, wit), rdf)
        # R6
        it = repo.func(mod, "TCPServer._idle_timeout")
        wi = f"{mod}:TCPServer._idle_timeout"
        gi = CFG(it)
        wit = gi.must_pass(gi.entry, [gi.exit], has_call("self._initiate_server_close"))
        ctx.check("C07.R6", wi, "every normal path runs _initiate_server_close()", wit is None, "the timer returns without closing the connection (e.g. when `terminated` fires instead of the timeout): " + explain(gi, wit), it)
        src = norm(it)
        if mod.startswith("asyncio"):
            wf = [c for c in calls(it) if call_name(c) == "asyncio.wait_for"]
            ok = len(wf) == 1 and norm(arg(wf[0], 0)) == "self.context.terminated.wait()" and norm(arg(wf[0], 1, "timeout")) == "self.config.keep_alive_timeout"
            sh = [c for c in calls(it) if call_name(c) == "asyncio.shield"]
            ok2 = len(sh) == 1 and norm(arg(sh[0], 0)) == "self._initiate_server_close()"
        else:
            mo = [n for n in walk_local(it) if isinstance(n, ast.With) and "trio.move_on_after(self.config.keep_alive_timeout)" in norm(n.items[0].context_expr)]
            ok = len(mo) == 1 and any("self.context.terminated.wait()" in norm(s) for s in mo[0].body)
            sh = [n for n in walk_local(it) if isinstance(n, ast.With) and "trio.CancelScope(shield=True)" in norm(n.items[0].context_expr)]
            ok2 = len(sh) == 1 and any("self._initiate_server_close()" in norm(s) for s in sh[0].body)
        ctx.check("C07.R6", wi, "wait(terminated) bounded by config.keep_alive_timeout", ok, "the idle timer must wait for shutdown or keep_alive_timeout, whichever comes first", it)
        ctx.check("C07.R6", wi, "server close is shielded from cancellation", ok2, "the close sequence must not be interrupted by the timer task's own cancellation", it)
        isc = repo.func(mod, "TCPServer._initiate_server_close")
        ph = [c for c in calls(isc) if call_name(c) == "self.protocol.handle" and "Closed()" in norm(c)]
        tc = find_calls(isc, *close_calls)
        ok = len(ph) == 1 and len(tc) == 1 and ph[0].lineno < tc[0].lineno and not guard_atoms(ph[0]) and not guard_atoms(tc[0])
        ctx.check("C07.R6", f"{mod}:TCPServer._initiate_server_close", "protocol.handle(Closed()) then close the transport", ok, "a timed-out connection must be reported to the protocol and closed", isc)
        # R8
        ps = repo.func(mod, "TCPServer.protocol_send")
        wp = f"{mod}:TCPServer.protocol_send"
        arm = arm_for(ps, "event", "Updated")
        ctx.need(arm is not None, f"{wp}: no Updated arm")
        rs = find_in(arm.body, "self.idle_task.restart")
        sp = find_in(arm.body, "self.idle_task.stop")
        ok = len(rs) == 1 and len(sp) == 1 and ("event.idle", True) in guard_atoms(rs[0], stop=arm) and ("event.idle", False) in guard_atoms(sp[0], stop=arm)
        ok = ok and norm(arg(rs[0], 1)) == "self._idle_timeout" and norm(arg(rs[0], 0)) == "self._task_group"
        ctx.check("C07.R8", wp, "Updated(idle) -> restart(_task_group, _idle_timeout); busy -> stop()", ok, "idle announcements must start the timer and busy announcements stop it", arm)
        rsn = gr.where(has_call("self.idle_task.restart"))
        ok = bool(rsn) and gr.dominates(lambda n: n.id in rsn, rd[0]) and gr.dominates(has_call("self.protocol.initiate"), rsn[0])
        ctx.check("C07.R8", w, "timer armed after initiate() and before the first read", ok, "a connection that never sends a request must time out", run_)
        stcls = "AsyncioSingleTask" if mod.startswith("asyncio") else "TrioSingleTask"
        wmod = mod.split(".")[0] + ".worker_context"
        for meth in ("restart", "stop"):
            fn = repo.func(wmod, f"{stcls}.{meth}")
            cn = find_calls(fn, "self._handle.cancel")
            ok = len(cn) == 1 and ("self._handle is not None", True) in guard_atoms(cn[0])
            locked = lambda n_: any(isinstance(a_, ast.AsyncWith) and any(norm(i_.context_expr) == "self._lock" for i_ in a_.items) for a_ in ancestors(n_))
            hasg = [s_ for s_ in walk_local(fn) if isinstance(s_, ast.Assign) and dotted(s_.targets[0]) == "self._handle"]
            ok = ok and locked(cn[0]) and all(locked(s_) for s_ in hasg)
            if meth == "stop":
                ok = ok and any(norm(s) == "self._handle = None" for s in walk_local(fn) if isinstance(s, ast.Assign))
            else:
                asg = [s for s in walk_local(fn) if isinstance(s, ast.Assign) and dotted(s.targets[0]) == "self._handle"]
                ok = ok and len(asg) == 1 and "action" in provenance(asg[0].value, fn).leaves and cn and cn[0].lineno < asg[0].lineno
            ctx.check("C07.R8", f"{wmod}:{stcls}.{meth}", "previous timer cancelled" + (" and replaced" if meth == "restart" else " and forgotten") + ", under the single-task lock", ok, "two timers would run at once / a stopped timer would still fire (restart() is not atomic: without the lock a stop() racing with it leaves the new timer running on a busy connection)", fn)

    # ---------------- R7
    hi = repo.func("protocol.http_stream", "HTTPStream.idle")
    ok = [norm(s) for s in hi.body] == ["return False"]
    ctx.check("C07.R7", "protocol.http_stream:HTTPStream.idle", "constant False", ok, "an HTTP stream in progress is never idle", hi)
    wi_ = repo.func("protocol.ws_stream", "WSStream.idle")
    rets = [n for n in walk_local(wi_) if isinstance(n, ast.Return)]
    ok = len(rets) == 1
    if ok:
        states = ["HANDSHAKE", "CONNECTED", "RESPONSE", "CLOSED", "HTTPCLOSED"]
        for s in states:
            env = {f"ASGIWebsocketState.{x}": x for x in states}
            env["self.state"] = s
            try:
                got = bool(eval_expr(rets[0].value, env))
            except Unknown:
                got = None
            if got != (s in ("CLOSED", "HTTPCLOSED")):
                ok = False
    ctx.check("C07.R7", "protocol.ws_stream:WSStream.idle", "idle iff state in {CLOSED, HTTPCLOSED}", ok, "an open WebSocket must keep the connection busy; a closed one must not", wi_)
    pi = repo.func(M2, "H2Protocol.idle")
    rets = [n for n in walk_local(pi) if isinstance(n, ast.Return)]
    from ..pred import eval_function as _evf

    ok = bool(rets) and _is_idle_predicate(lambda smp: _evf(pi, {"self.streams": smp}))
    ctx.check("C07.R7", f"{M2}:H2Protocol.idle", "no streams or all streams idle", ok, f"idle is {norm(rets[0].value) if rets else '?'}", pi)

    from ..core import Alias
    from . import c16

    if isinstance(ctx, Alias):
        return
    from . import c06

    from . import c10

    c10.run(Alias(ctx, "C07.R12", "WebSocket: every CloseConnection event ends the stream, so the connection is closed instead of lingering until the client gives up (C10.R5)", only={"C10.R5"}))
    c06.run(Alias(ctx, "C07.R10", "a reader parked behind an unfinished pipelined request is released on the recycle AND on the close path of _maybe_recycle, so the connection handler can finish (C06.R3)", only={"C06.R3"}))
    c16.run(Alias(ctx, "C07.R9", "both workers realise the same connection-handler, idle-timer and single-task skeletons (C16.R2 on TCPServer.*, C16.R3 on the SingleTask helpers: cancel/replace under the lock)", only={"C16.R2", "C16.R3"}, where=["TCPServer.", "SingleTask."]))
    ctx.assume("not decided: expiry instants, that a busy connection is never closed by the timer under every interleaving, virtual-time behaviour; C07.R2 (stream-generated error responses end the stream) is decided by the typestate analysis reported under this property")
    from . import typestate_rules

    typestate_rules.run_for(ctx, "C07")


def _enclosing_arm(stmt: ast.AST, fn: ast.AST) -> ast.AST:
    """Innermost if-arm (of an isinstance dispatch) containing stmt, else the function."""
    best = fn
    for a in ancestors(stmt):
        if isinstance(a, ast.If) and "isinstance(event" in norm(a.test):
            return _ArmBody(a, stmt)
        if a is fn:
            break
    return best


class _ArmBody(ast.AST):
    """Synthetic node whose children are the statements of the branch containing stmt."""

    _fields = ("body",)

    def __init__(self, if_node: ast.If, stmt: ast.AST) -> None:
        in_body = any(stmt is x for s in if_node.body for x in ast.walk(s))
        self.body = if_node.body if in_body else if_node.orelse


def _reaches_call(repo, module: str, cls: str, stmts, target: str, depth: int = 4) -> bool:
    """Does the statement list (following self.<method>() calls within the class) reach a call to target?"""
    methods = repo.methods(module, cls)
    seen = set()

    def go(nodes, d) -> bool:
        for s in nodes:
            for c in ast.walk(s):
                if isinstance(c, ast.Call):
                    nm = call_name(c)
                    if nm == target:
                        return True
                    if nm and nm.startswith("self.") and nm.count(".") == 1:
                        m = nm.split(".")[1]
                        if m in methods and m not in seen and d > 0:
                            seen.add(m)
                            if go(methods[m].body, d - 1):
                                return True
        return False

    return go(stmts, depth)
