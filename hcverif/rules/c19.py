"""C19 — configuration sources agree; CLI flags set exactly their own setting; binds parse."""
from __future__ import annotations

import ast
from typing import Dict, List, Optional, Set, Tuple

from ..astq import (
    arg,
    atoms,
    call_name,
    calls,
    dotted,
    find_calls,
    guard_atoms,
    guards,
    kwarg,
    norm,
    provenance,
    walk_local,
)
from ..core import AnalysisError, Ctx
from ..pred import guards_table

# flag dest -> Config setting, where the two names differ (the CLI's documented meaning)
RENAMES = {
    "keep_alive": "keep_alive_timeout",
    "pid": "pid_path",
    "reload": "use_reloader",
    "log_level": "loglevel",
    "access_logformat": "access_log_format",
    "access_log": "accesslog",
    "access_logfile": "accesslog",
    "error_log": "errorlog",
    "error_logfile": "errorlog",
    "log_config": "logconfig",
    "binds": "bind",
    "insecure_binds": "insecure_bind",
    "quic_binds": "quic_bind",
}


class Flag:
    def __init__(self, call: ast.Call) -> None:
        self.call = call
        self.options = [a.value for a in call.args if isinstance(a, ast.Constant) and isinstance(a.value, str)]
        d = kwarg(call, "dest")
        if d is not None and isinstance(d, ast.Constant):
            self.dest = d.value
        else:
            longs = [o for o in self.options if o.startswith("--")]
            if longs:
                self.dest = longs[0][2:].replace("-", "_")
            elif self.options and self.options[0].startswith("-"):
                self.dest = self.options[0][1:]
            else:
                self.dest = self.options[0] if self.options else "?"
        self.positional = bool(self.options) and not self.options[0].startswith("-")
        self.default = kwarg(call, "default")
        self.action = kwarg(call, "action")
        self.type = kwarg(call, "type")


def config_model(ctx: Ctx):
    cls = ctx.repo.cls("config", "Config")
    attrs: Dict[str, ast.AST] = {}
    ann: Dict[str, str] = {}
    props: Dict[str, Dict[str, ast.AST]] = {}
    for n in cls.body:
        if isinstance(n, ast.Assign):
            for t in n.targets:
                if isinstance(t, ast.Name):
                    attrs[t.id] = n.value
                    # name = property(getter, setter)
                    if isinstance(n.value, ast.Call) and dotted(n.value.func) == "property":
                        props.setdefault(t.id, {})["setter"] = n.value
        elif isinstance(n, ast.AnnAssign) and isinstance(n.target, ast.Name):
            attrs[n.target.id] = n.value
            ann[n.target.id] = norm(n.annotation)
        elif isinstance(n, (ast.FunctionDef, ast.AsyncFunctionDef)):
            for dec in n.decorator_list:
                d = dotted(dec)
                if d == "property":
                    props.setdefault(n.name, {})["getter"] = n
                elif d and d.endswith(".setter"):
                    props.setdefault(d.split(".")[0], {})["setter"] = n
    return cls, attrs, ann, props


def _int_default(node: Optional[ast.AST], annotation: str) -> bool:
    if "int" in annotation or "float" in annotation:
        return True
    if node is None:
        return False
    if isinstance(node, ast.Constant):
        return isinstance(node.value, (int, float)) and not isinstance(node.value, bool)
    if isinstance(node, ast.BinOp):
        return True  # e.g. 5 * SECONDS, 2**16
    return False


def run(ctx: Ctx) -> None:
    if getattr(ctx, "_depth", 0) >= 2:
        return  # alias of an alias: not followed (breaks import cycles between rule modules)
    repo = ctx.repo
    main = repo.func("__main__", "main")
    where = "__main__:main"
    cls, cattrs, cann, cprops = config_model(ctx)

    ctx.rule("C19.R1", "each `if args.X is not sentinel: config.Y = args.Z` has X == Z, Y is X's own setting (identity or the documented rename), Y exists on Config, no two non-deprecated flags write one setting, every declared flag is consumed exactly once", floor=25)
    ctx.rule("C19.R2", "a flag is tested against the sentinel iff it is declared with default=sentinel (a real default would overwrite file/ object configuration)", floor=25)
    ctx.rule("C19.R3", "list flags use action=append, default=[] and are copied to their own setting only when non-empty", floor=4)
    ctx.rule("C19.R4", "loader funnel: from_toml/from_pyfile/from_object reach from_mapping which setattr()s every key; _load_config dispatches python:/file:/toml", floor=6)
    ctx.rule("C19.R5", "bind/insecure_bind/quic_bind setters wrap a str into a one-element list and store lists as given; root_path setter stores value.rstrip('/')", floor=4)
    ctx.rule("C19.R6", "response_headers: date guarded by include_date_header from format_date_time(time()), server guarded by include_server_header, then alt-svc; in that order", floor=3)
    ctx.rule("C19.R7", "_create_sockets: unix: -> AF_UNIX with prefix stripped; fd:// -> socket(fileno=int(..)) + type check; else brackets stripped, rsplit(':',1), AF_INET6 iff ':' in host; bind() for unix and host:port only", floor=5)
    ctx.rule("C19.R8", "numeric settings are parsed with a numeric type= and every flag's value reaches the config unmodified", floor=8)

    # ---- model of add_argument calls
    flags: Dict[str, Flag] = {}
    for c in find_calls(main, "parser.add_argument"):
        f = Flag(c)
        if f.dest in flags:
            ctx.check("C19.R1", where, f"dest:{f.dest}", False, f"two add_argument calls share dest {f.dest}", c)
        flags[f.dest] = f
    ctx.need(len(flags) >= 30, f"only {len(flags)} add_argument calls found in main()")

    sentinel_names = {"sentinel"}

    def is_sentinel(n: Optional[ast.AST]) -> bool:
        return isinstance(n, ast.Name) and n.id in sentinel_names

    # ---- model of the copy statements
    writes: List[Tuple[str, str, str, ast.AST, bool, List[ast.AST]]] = []  # (tested, setting, source, node, deprecated, guards)
    list_writes: List[Tuple[str, str, str, ast.AST]] = []
    for n in walk_local(main):
        if not isinstance(n, ast.Assign) or len(n.targets) != 1:
            continue
        t = dotted(n.targets[0])
        if not t or not t.startswith("config.") or t.count(".") != 1:
            continue
        setting = t.split(".")[1]
        src = dotted(n.value)
        gs = guards(n)
        tested_sentinel = None
        tested_len = None
        for test, pol in gs:
            for txt, p in atoms(test, pol):
                pass
            # recognise `args.X is not sentinel`
            if isinstance(test, ast.Compare) and len(test.ops) == 1:
                l, r = test.left, test.comparators[0]
                dl = dotted(l)
                if dl and dl.startswith("args.") and is_sentinel(r):
                    if (isinstance(test.ops[0], ast.IsNot) and pol) or (isinstance(test.ops[0], ast.Is) and not pol):
                        tested_sentinel = dl.split(".", 1)[1]
                    elif isinstance(test.ops[0], (ast.NotEq,)) and pol:
                        tested_sentinel = dl.split(".", 1)[1]
                # recognise len(args.X) > 0
                if isinstance(l, ast.Call) and dotted(l.func) == "len" and l.args:
                    dx = dotted(l.args[0])
                    if dx and dx.startswith("args.") and pol:
                        if (isinstance(test.ops[0], ast.Gt) and norm(r) == "0") or (isinstance(test.ops[0], ast.GtE) and norm(r) == "1") or (isinstance(test.ops[0], ast.NotEq) and norm(r) == "0"):
                            tested_len = dx.split(".", 1)[1]
            elif pol and dotted(test) and dotted(test).startswith("args."):
                tested_len = dotted(test).split(".", 1)[1]  # truthiness of the list
        deprecated = False
        par = getattr(n, "_parent", None)
        if isinstance(par, ast.If):
            deprecated = any(call_name(c) == "warnings.warn" for s in par.body for c in calls(s))
        if tested_sentinel is not None:
            writes.append((tested_sentinel, setting, norm(n.value), n, deprecated, gs))
        elif tested_len is not None:
            list_writes.append((tested_len, setting, norm(n.value), n))
        elif setting == "application_path":
            ok = src == "args.application"
            ctx.check("C19.R1", where, "config.application_path", ok, f"application_path is set from {norm(n.value)}", n)
        else:
            ctx.check("C19.R1", where, f"config.{setting}", False, f"config.{setting} is assigned from {norm(n.value)} without a sentinel/emptiness test: a config-file value is always overwritten", n)

    # R1
    consumed: Dict[str, int] = {}
    setting_writers: Dict[str, List[str]] = {}
    for tested, setting, source, node, deprecated, gs in writes:
        consumed[tested] = consumed.get(tested, 0) + 1
        want = RENAMES.get(tested, tested)
        problems = []
        if source != f"args.{tested}":
            problems.append(f"value comes from {source}, not from args.{tested}")
        if tested not in flags:
            problems.append(f"args.{tested} is not a declared flag")
        if setting not in cattrs and setting not in cprops:
            problems.append(f"Config has no setting {setting}")
        if setting != want:
            if tested in RENAMES or want in cattrs or want in cprops:
                problems.append(f"writes config.{setting}; this flag's setting is config.{want}")
        foreign = [(norm(t), p_) for t, p_ in gs if not (isinstance(t, ast.Compare) and dotted(t.left) == f"args.{tested}")]
        if foreign:
            problems.append(f"also guarded by {foreign}: the flag is ignored for some combinations of other flags")
        if not deprecated:
            setting_writers.setdefault(setting, []).append(tested)
        ctx.check("C19.R1", where, f"flag:{tested}", not problems, f"--{tested.replace('_', '-')}: " + "; ".join(problems), node,
                  sample={"flag": tested, "setting": setting, "source": source})
    for setting, ws in setting_writers.items():
        if len(ws) > 1:
            ctx.check("C19.R1", where, f"setting:{setting}", False, f"config.{setting} is written by several non-deprecated flags: {ws}", None)
    for dest, f in flags.items():
        if f.positional or dest == "config":
            continue
        if is_sentinel(f.default):
            n_cons = consumed.get(dest, 0)
            ctx.check("C19.R1", where, f"consumed:{dest}", n_cons == 1, f"flag dest {dest} is copied to the config {n_cons} times (expected once)", f.call)

    # R2
    for tested, setting, source, node, deprecated, gs in writes:
        f = flags.get(tested)
        if f is None:
            continue
        ctx.check("C19.R2", where, f"default:{tested}", is_sentinel(f.default),
                  f"--{tested.replace('_', '-')} is tested with `is not sentinel` but declared with default={norm(f.default)}: the test is always true and a configured value is overwritten", f.call)
    for dest, f in flags.items():
        if is_sentinel(f.default) and dest not in consumed:
            ctx.check("C19.R2", where, f"unused:{dest}", False, f"--{dest} declared with the sentinel default but never copied to the config", f.call)

    # R3
    list_consumed = {}
    for tested, setting, source, node in list_writes:
        list_consumed[tested] = list_consumed.get(tested, 0) + 1
        f = flags.get(tested)
        want = RENAMES.get(tested, tested)
        problems = []
        if f is None:
            problems.append("not a declared flag")
        else:
            if not (isinstance(f.action, ast.Constant) and f.action.value == "append"):
                problems.append(f"action is {norm(f.action)}, not append")
            if not (isinstance(f.default, ast.List) and not f.default.elts):
                problems.append(f"default is {norm(f.default)}, not []")
        if source != f"args.{tested}":
            problems.append(f"value comes from {source}")
        if setting != want:
            problems.append(f"writes config.{setting}, expected config.{want}")
        ctx.check("C19.R3", where, f"listflag:{tested}", not problems, f"--{tested}: " + "; ".join(problems), node)
    for dest, f in flags.items():
        if isinstance(f.action, ast.Constant) and f.action.value == "append":
            ctx.check("C19.R3", where, f"listconsumed:{dest}", list_consumed.get(dest, 0) == 1, f"list flag {dest} copied {list_consumed.get(dest, 0)} times", f.call)

    # R8: numeric type, unmodified value (source == args.X is part of R1)
    for tested, setting, source, node, deprecated, gs in writes:
        f = flags.get(tested)
        if f is None:
            continue
        if _int_default(cattrs.get(setting), cann.get(setting, "")) and not (isinstance(f.action, ast.Constant) and f.action.value == "store_true"):
            t = norm(f.type)
            ctx.check("C19.R8", where, f"type:{tested}", t in ("int", "float"), f"--{tested}: numeric setting config.{setting} but flag type is {t or 'str'}", f.call)
    # store_true flags must map to bool settings
    for dest, f in flags.items():
        if isinstance(f.action, ast.Constant) and f.action.value == "store_true":
            setting = RENAMES.get(dest, dest)
            dv = cattrs.get(setting)
            ctx.check("C19.R8", where, f"bool:{dest}", isinstance(dv, ast.Constant) and isinstance(dv.value, bool), f"store_true flag {dest} maps to non-bool setting {setting}", f.call)
    # args = parser.parse_args(...); config = _load_config(args.config)
    ok_parse = any(call_name(c) == "parser.parse_args" for c in calls(main))
    load_calls = find_calls(main, "_load_config")
    ok_load = len(load_calls) == 1 and norm(arg(load_calls[0], 0)) == "args.config"
    ctx.check("C19.R8", where, "load_config(args.config)", ok_parse and ok_load, "main() must build the config from --config exactly once before applying flags", load_calls[0] if load_calls else main)
    run_calls = find_calls(main, "run")
    ctx.check("C19.R8", where, "run(config)", len(run_calls) == 1 and norm(arg(run_calls[0], 0)) == "config", "main() must hand the same config object to run()", run_calls[0] if run_calls else main)

    # ---- R4 loader funnel
    cw = "config:Config"
    fm = repo.func("config", "Config.from_mapping")
    setattrs = [c for c in calls(fm) if call_name(c) == "setattr"]
    ok = False
    for c in setattrs:
        if len(c.args) == 3:
            p = provenance(c.args[2], fm)
            pk = provenance(c.args[1], fm)
            tgt = provenance(c.args[0], fm)
            ok = "cls()" in tgt.ops and "items()" in p.ops and "items()" in pk.ops and "[1]" in p.ops and "[0]" in pk.ops
    ok = ok and all(not guard_atoms(c) for c in setattrs)
    ctx.check("C19.R4", cw + ".from_mapping", "setattr(config, key, value) for every item", ok, "from_mapping must setattr every (key, value) of mapping and kwargs on a fresh cls()", fm)
    # both mapping and kwargs merged
    upd = [norm(c) for c in calls(fm) if call_name(c) and call_name(c).endswith(".update")]
    ctx.check("C19.R4", cw + ".from_mapping", "mapping+kwargs merged", any("mapping" in u for u in upd) and any("kwargs" in u for u in upd), f"from_mapping merges {upd}", fm)
    ret = [n for n in walk_local(fm) if isinstance(n, ast.Return)]
    ctx.check("C19.R4", cw + ".from_mapping", "returns the populated config", len(ret) == 1 and ret[0].value is not None and "cls()" in provenance(ret[0].value, fm).ops, "from_mapping must return the object it populated", fm)
    for name, via in (("from_toml", "from_mapping"), ("from_pyfile", "from_object"), ("from_object", "from_mapping")):
        fn = repo.func("config", f"Config.{name}")
        rets = [n for n in walk_local(fn) if isinstance(n, ast.Return) and n.value is not None]
        good = bool(rets) and all(isinstance(r.value, ast.Call) and call_name(r.value) == f"cls.{via}" for r in rets)
        ctx.check("C19.R4", cw + "." + name, f"returns cls.{via}(...)", good, f"{name} must return cls.{via}(<loaded data>)", fn)
        if name == "from_toml" and rets:
            p = provenance(rets[0].value, fn)
            ctx.check("C19.R4", cw + ".from_toml", "data <- tomllib.load(file)", "load()" in p.ops and "filename" in p.leaves, f"from_toml passes {p}", fn)
        if name == "from_object" and rets:
            iss = [c for c in calls(fn) if call_name(c) == "isinstance" and len(c.args) == 2 and "getattr(instance" in norm(c.args[0])]
            classes = sorted(norm(e) for c in iss for e in (c.args[1].elts if isinstance(c.args[1], ast.Tuple) else [c.args[1]]))
            ctx.check("C19.R4", cw + ".from_object", "only modules (and dunder names) are left out of the mapping", classes == ["types.ModuleType"], f"attributes filtered by type {classes}: settings whose value is a class or a function (logger_class, a callable) would be honoured by from_mapping but silently dropped by from_object / from_pyfile / -c python:", iss[0] if iss else fn)
            sw = [c for c in calls(fn) if isinstance(c.func, ast.Attribute) and c.func.attr == "startswith" and norm(c.func.value) == "key"]
            ctx.check("C19.R4", cw + ".from_object", "names skipped only when they start with '__'", len(sw) == 1 and [norm(a) for a in sw[0].args] == ["'__'"], f"name filter: {[norm(c) for c in sw]}", sw[0] if sw else fn)
            p = provenance(rets[0].value, fn)
            ctx.check("C19.R4", cw + ".from_object", "mapping <- {key: getattr(instance, key)}", "getattr()" in p.ops and "instance" in p.leaves and "dir()" in p.ops, f"from_object passes {p}", fn)
    lc = repo.func("__main__", "_load_config")
    table = {}
    for r in [n for n in walk_local(lc) if isinstance(n, ast.Return) and isinstance(n.value, ast.Call)]:
        g = guard_atoms(r)
        table[call_name(r.value)] = (g, r)
    def has(gset, txt, pol):
        return any(txt in a and p == pol for a, p in gset)
    good = (
        "Config.from_object" in table and has(table["Config.from_object"][0], "startswith('python:')", True)
        and "Config.from_pyfile" in table and has(table["Config.from_pyfile"][0], "startswith('file:')", True)
        and "Config.from_toml" in table and has(table["Config.from_toml"][0], "startswith('python:')", False) and has(table["Config.from_toml"][0], "startswith('file:')", False)
        and "Config" in table and has(table["Config"][0], "config_path is None", True)
    )
    ctx.check("C19.R4", "__main__:_load_config", "dispatch python:/file:/toml/None", good, f"_load_config dispatch table is {sorted(table)}", lc)
    if good:
        a1 = norm(table["Config.from_object"][1].value.args[0])
        a2 = norm(table["Config.from_pyfile"][1].value.args[0])
        a3 = norm(table["Config.from_toml"][1].value.args[0])
        ok = a1 in ("config_path[len('python:'):]", "config_path[7:]") and a2 in ("config_path[len('file:'):]", "config_path[5:]") and a3 == "config_path"
        ctx.check("C19.R4", "__main__:_load_config", "prefix stripped exactly", ok, f"arguments: {a1} / {a2} / {a3}", lc)

    # ---- R5 setters
    for name, store in (("bind", "_bind"), ("insecure_bind", "_insecure_bind"), ("quic_bind", "_quic_bind")):
        pr = cprops.get(name, {})
        setter, getter = pr.get("setter"), pr.get("getter")
        ctx.need(setter is not None and getter is not None, f"Config.{name} property not found")
        assigns = [n for n in walk_local(setter) if isinstance(n, ast.Assign) and dotted(n.targets[0]) == f"self.{store}"]
        wrapped = plain = False
        for a in assigns:
            g = guard_atoms(a)
            if ("isinstance(value, str)", True) in g and norm(a.value) == "[value]":
                wrapped = True
            if ("isinstance(value, str)", False) in g and norm(a.value) in ("value", "list(value)"):
                plain = True
        gret = [n for n in walk_local(getter) if isinstance(n, ast.Return)]
        gok = len(gret) == 1 and norm(gret[0].value) == f"self.{store}"
        ctx.check("C19.R5", f"config:Config.{name}", "str -> [str]; list kept; getter returns the same store", wrapped and plain and gok and len(assigns) == 2, f"setter assigns {[norm(a) for a in assigns]}; getter returns {[norm(r.value) for r in gret]}", setter)
    pr = cprops.get("root_path", {})
    ctx.need("setter" in pr and "getter" in pr, "Config.root_path property not found")
    assigns = [n for n in walk_local(pr["setter"]) if isinstance(n, ast.Assign)]
    gret = [n for n in walk_local(pr["getter"]) if isinstance(n, ast.Return)]
    ok = len(assigns) == 1 and dotted(assigns[0].targets[0]) == "self._root_path" and norm(assigns[0].value) == "value.rstrip('/')" and len(gret) == 1 and norm(gret[0].value) == "self._root_path"
    ctx.check("C19.R5", "config:Config.root_path", "value.rstrip('/')", ok, f"root_path setter: {[norm(a) for a in assigns]}", pr["setter"])

    # ---- R6 response_headers
    rh = repo.func("config", "Config.response_headers")
    from ..pred import eval_function as _evf6

    h3 = ["h3", "h3-29"]
    n6 = 0
    bad6 = None
    for date in (True, False):
        for server in (True, False):
            for alt in ([], ['h3=":443"; ma=60'], ["a", "b"]):
                for quic in ([], [("::", 4433)], [("0.0.0.0", 443), ("::", 444)]):
                    want = ([(b"date", b"DATE")] if date else []) + ([(b"server", b"hypercorn-h2")] if server else []) + [(b"alt-svc", a_.encode()) for a_ in alt]
                    if not alt and quic:
                        want += [(b"alt-svc", b'%s=":%d"; ma=3600' % (v_.encode(), addr_[1])) for v_ in h3 for addr_ in quic]
                    env6 = {"self.include_date_header": date, "self.include_server_header": server, "self.alt_svc_headers": alt, "self._quic_addresses": quic, "protocol": "h2", "format_date_time(time())": "DATE", "H3_ALPN": h3}
                    try:
                        got = _evf6(rh, env6)
                        got = [tuple(x) for x in got] if isinstance(got, list) else got
                    except Exception as error:
                        got = f"raises / not evaluable: {error}"
                    n6 += 1
                    if got != want and bad6 is None:
                        bad6 = (date, server, alt, quic, got, want)
    ctx.check("C19.R6", "config:Config.response_headers", f"decision table over the switches ({n6} configurations): date (RFC 7231 date of now), server, alt-svc values in that order, each exactly under its switch", bad6 is None,
              "" if bad6 is None else f"include_date_header={bad6[0]}, include_server_header={bad6[1]}, alt_svc_headers={bad6[2]}, quic addresses={bad6[3]}: returns {bad6[4]}, expected {bad6[5]}", rh)
    uses_time = [c for c in calls(rh) if call_name(c) == "format_date_time" and len(c.args) == 1 and norm(c.args[0]) == "time()"]
    ctx.check("C19.R6", "config:Config.response_headers", "date value is format_date_time(time())", len(uses_time) == 1, "the date header must be the RFC 7231 rendering of the current time", uses_time[0] if uses_time else rh)
    imp = [n for n in repo.module("config").tree.body if isinstance(n, ast.ImportFrom) and n.module == "wsgiref.handlers" and any(a.name == "format_date_time" for a in n.names)]
    ctx.check("C19.R6", "config:Config.response_headers", "format_date_time is wsgiref.handlers.format_date_time", len(imp) == 1, "RFC 7231 date formatting must come from wsgiref.handlers", None)

    # ---- R7 _create_sockets
    cs = repo.func("config", "Config._create_sockets")
    w7 = "config:Config._create_sockets"
    socks = [c for c in calls(cs) if call_name(c) == "socket.socket"]
    unix = [c for c in socks if "AF_UNIX" in norm(c)]
    fd = [c for c in socks if kwarg(c, "fileno") is not None]
    inet = [c for c in socks if "AF_INET" in norm(c)]
    ok = len(unix) == 1 and ("bind.startswith('unix:')", True) in guard_atoms(unix[0]) and norm(arg(unix[0], 1)) == "type_"
    ctx.check("C19.R7", w7, "unix: -> AF_UNIX", ok, "unix: binds must create socket(AF_UNIX, type_)", unix[0] if unix else cs)
    b5 = [n for n in walk_local(cs) if isinstance(n, ast.Assign) and dotted(n.targets[0]) == "binding" and ("bind.startswith('unix:')", True) in guard_atoms(n)]
    ctx.check("C19.R7", w7, "unix path = bind[5:]", len(b5) == 1 and norm(b5[0].value) in ("bind[5:]", "bind[len('unix:'):]"), f"unix binding is {[norm(x.value) for x in b5]}", b5[0] if b5 else cs)
    ok = len(fd) == 1 and ("bind.startswith('fd://')", True) in guard_atoms(fd[0]) and norm(kwarg(fd[0], "fileno")) in ("int(bind[5:])", "int(bind[len('fd://'):])")
    ctx.check("C19.R7", w7, "fd:// -> socket(fileno=int(bind[5:]))", ok, "fd:// binds must wrap the given descriptor", fd[0] if fd else cs)
    raises = [n for n in walk_local(cs) if isinstance(n, ast.Raise) and "SocketTypeError" in norm(n)]
    ok = len(raises) == 1 and ("actual_type != type_", True) in guard_atoms(raises[0]) and ("bind.startswith('fd://')", True) in guard_atoms(raises[0])
    ctx.check("C19.R7", w7, "fd type check", ok, "an inherited descriptor of the wrong socket type must raise SocketTypeError", raises[0] if raises else cs)
    ok = len(inet) == 1 and ("bind.startswith('unix:')", False) in guard_atoms(inet[0]) and ("bind.startswith('fd://')", False) in guard_atoms(inet[0])
    fam = norm(arg(inet[0], 0)) if inet else ""
    ok = ok and fam == "socket.AF_INET6 if ':' in host else socket.AF_INET" and norm(arg(inet[0], 1)) == "type_"
    ctx.check("C19.R7", w7, "AF_INET6 iff ':' in host", ok, f"family expression is {fam}", inet[0] if inet else cs)
    # host/port parsing
    hp = provenance(ast.Name(id="host", ctx=ast.Load()), cs)
    pp = provenance(ast.Name(id="port", ctx=ast.Load()), cs)
    src = norm(cs)
    ok = "rsplit()" in hp.ops and "int()" in pp.ops and "bind.rsplit(':', 1)" in src and "const:8000" in pp.leaves
    strip = [n for n in walk_local(cs) if isinstance(n, ast.Assign) and dotted(n.targets[0]) == "bind"]
    ok = ok and len(strip) == 1 and norm(strip[0].value) == "bind.replace('[', '').replace(']', '')"
    okg = len(strip) == 1 and {("bind.startswith('unix:')", False), ("bind.startswith('fd://')", False)} <= guard_atoms(strip[0])
    ctx.check("C19.R7", w7, "IPv6 brackets are stripped for host:port binds only", okg, "the bracket stripping also runs for unix: / fd:// binds: a unix socket path containing '[' or ']' is bound at a different path", strip[0] if strip else cs)
    ctx.check("C19.R7", w7, "host:port parse", ok, f"host<-{hp} port<-{pp}", cs)
    binds = [c for c in calls(cs) if call_name(c) == "sock.bind"]
    okb = len(binds) == 2 and all(norm(arg(b, 0)) == "binding" for b in binds)
    if okb:
        g0, g1 = guard_atoms(binds[0]), guard_atoms(binds[1])
        okb = ("bind.startswith('unix:')", True) in g0 and ("bind.startswith('unix:')", False) in g1 and ("bind.startswith('fd://')", False) in g1
    ctx.check("C19.R7", w7, "bind() for unix and host:port only", okb, "sock.bind(binding) must run for unix and inet binds and not for fd://", binds[0] if binds else cs)
    bt = [n for n in walk_local(cs) if isinstance(n, ast.Assign) and dotted(n.targets[0]) == "binding" and norm(n.value) == "(host, port)"]
    ctx.check("C19.R7", w7, "binding = (host, port)", len(bt) == 1, "inet binding must be (host, port)", bt[0] if bt else cs)
    apps = [c for c in calls(cs) if call_name(c) == "sockets.append"]
    rets = [n for n in walk_local(cs) if isinstance(n, ast.Return)]
    okr = len(apps) == 1 and norm(arg(apps[0], 0)) == "sock" and len(rets) == 1 and norm(rets[0].value) == "sockets" and not guard_atoms(apps[0])
    ctx.check("C19.R7", w7, "every bind yields one socket", okr, "each bind string must append exactly one socket to the returned list", cs)
    # create_sockets wiring
    cr = repo.func("config", "Config.create_sockets")
    from ..pred import eval_function as _evf7
    from .common import value_slice as _vs7

    fields = [n.target.id for n in repo.cls("config", "Sockets").body if isinstance(n, ast.AnnAssign) and isinstance(n.target, ast.Name)]

    def _args_of(c_):
        vals = list(c_.args) + [None] * (len(fields) - len(c_.args))
        for kw_ in c_.keywords:
            if kw_.arg in fields:
                vals[fields.index(kw_.arg)] = kw_.value
        return ast.Tuple(elts=[v_ if v_ is not None else ast.Constant(value="<missing>") for v_ in vals], ctx=ast.Load())

    sl = _vs7(cr.body, lambda c_: call_name(c_) == "Sockets", _args_of)
    mk = lambda *a, **kw: ("sockets",) + tuple(a) + tuple(sorted(kw.items()))  # noqa: E731
    for ssl_on, want in ((True, (("sockets", "B"), ("sockets", "I"), ("sockets", "Q", "DGRAM"))), (False, ([], ("sockets", "B"), []))):
        try:
            got = _evf7(sl, {"__lenient__": True, "self.ssl_enabled": ssl_on, "self.bind": "B", "self.insecure_bind": "I", "self.quic_bind": "Q", "socket.SOCK_DGRAM": "DGRAM", "call:self._create_sockets": lambda b_, t_=None, **kw: ("sockets", b_) + ((t_,) if t_ is not None else ()) + ((kw["type_"],) if "type_" in kw else ())})
            got = tuple(tuple(x) if isinstance(x, tuple) else x for x in got) if isinstance(got, (tuple, list)) else got
        except Exception as error:
            got = f"not evaluable: {error}"
        ctx.check("C19.R7", "config:Config.create_sockets", f"ssl_enabled={ssl_on}: Sockets(secure, insecure, quic) built from bind / insecure_bind / quic_bind (datagram)", got == want, f"gives {got}, expected {want}", cr)
    sq = [c for c in calls(cr) if call_name(c) == "self._set_quic_addresses"]
    ctx.check("C19.R7", "config:Config.create_sockets", "QUIC addresses recorded from the QUIC sockets", len(sq) == 1 and ("self.ssl_enabled", True) in guard_atoms(sq[0]), "alt-svc advertisement needs the bound QUIC addresses", sq[0] if sq else cr)

    ctx.assume("not decided: the socket family/address the OS actually produces for arbitrary bind strings; tomllib / importlib behaviour; argparse's own parsing")
    ctx.assume("flag->setting oracle: identity on names plus the rename table in rules/c19.py (the CLI's documented meaning)")
