"""C20 — middleware semantics: proxy trust boundary, dispatch routing, HTTPS redirect."""
from __future__ import annotations

import ast

from ..astq import ancestors, arg, call_name, calls, dotted, find_calls, guard_atoms, guards, kwarg, norm, provenance, walk_local
from ..cfg import CFG
from ..core import Ctx
from ..pred import Unknown, eval_expr, eval_function
from .common import explain, has_call, has_stmt


def run(ctx: Ctx) -> None:
    if getattr(ctx, "_depth", 0) >= 2:
        return  # alias of an alias: not followed (breaks import cycles between rule modules)
    repo = ctx.repo
    ctx.rule("C20.R1", "_get_trusted_value returns the value trusted_hops from the right when at least that many values exist, else None; None when trusted_hops == 0 (decision table over value lists and hop counts)", floor=1)
    ctx.rule("C20.R2", "ProxyFixMiddleware copies the scope (deepcopy) before any write into it and hands the copy to the application; untouched scopes pass through", floor=4)
    ctx.rule("C20.R3", "dispatcher: mounts tried in order, first prefix match wins, path rewritten to path[len(prefix):] or '/', otherwise 404", floor=4)
    ctx.rule("C20.R4", "lifespan fan-out: each *.complete is forwarded only when all mounts' flags OF THE SAME STAGE are set, after setting this mount's flag (asyncio and trio)", floor=4)
    ctx.rule("C20.R5", "redirect predicate: (http and scheme http) or (websocket and scheme ws); everything else is passed through with the same scope, receive and send", floor=3)
    ctx.rule("C20.R6", "_new_url = urlunsplit((scheme, host, root_path + raw_path, query_string, '')); host from the constructor else the host header; https for http, wss (https on HTTP/2) for websockets; 307 with a location header", floor=5)

    # ---- R1: decision table by interpretation of the function on small domains
    tv = repo.func("middleware.proxy_fix", "_get_trusted_value")
    w = "middleware.proxy_fix:_get_trusted_value"
    # the whole function is interpreted on sample header lists: values are collected left to right
    # across repeated (case-insensitive) header lines, split on commas and stripped; the value
    # `trusted_hops` from the right is returned when that many exist, else None
    pn = [a.arg for a in tv.args.args]
    layouts = []
    for n in range(0, 6):
        vals = [f"v{i}" for i in range(n)]
        one = [(b"X-Fwd", ", ".join(vals).encode())] if vals else []
        layouts.append((vals, [(b"other", b"zz")] + one))
        if n >= 2:
            layouts.append((vals, [(b"x-fwd", ",".join(vals[:1]).encode()), (b"other", b"o1, o2"), (b"X-FWD", " , ".join(vals[1:]).encode())]))
    bad = None
    cases = 0
    try:
        for hops in range(0, 5):
            for vals, hdrs in layouts:
                cases += 1
                got = eval_function(tv, dict(zip(pn, [b"x-fwd", hdrs, hops])))
                want = None if hops == 0 or len(vals) < hops else vals[-hops]
                if got != want:
                    bad = (hops, hdrs, got, want)
                    raise StopIteration
    except StopIteration:
        pass
    except Exception as u:  # Unknown construct / raised
        bad = ("unsupported construct", str(u), None, None)
    ctx.check("C20.R1", w, "selection table: hops 0..4 x 0..5 values (one and two header lines)", bad is None, f"trusted_hops={bad[0]} headers={bad[1]}: returns {bad[2]!r}, expected {bad[3]!r} (a client-supplied value is trusted, or a trusted one ignored)" if bad else "", tv, sample={"hops": "0..4", "values": "0..5", "cases": cases})

    # ---- R2
    pf = repo.func("middleware.proxy_fix", "ProxyFixMiddleware.__call__")
    wp = "middleware.proxy_fix:ProxyFixMiddleware.__call__"
    g = CFG(pf)
    dc = g.where(has_stmt(lambda n: isinstance(n, ast.Assign) and norm(n) == "scope = deepcopy(scope)"))
    stores = g.where(has_stmt(lambda n: isinstance(n, ast.Assign) and any(isinstance(t, ast.Subscript) and norm(t.value) == "scope" for t in n.targets)))
    ok = len(dc) == 1 and bool(stores) and all(g.dominates(lambda n: n.id in dc, s) for s in stores)
    ctx.check("C20.R2", wp, "scope = deepcopy(scope) dominates every scope[...] = ...", ok, "the caller's scope would be mutated", pf)
    hs = [n for n in walk_local(pf) if isinstance(n, ast.Assign) and dotted(n.targets[0]) == "headers"]
    ok = bool(hs) and norm(hs[0].value) == "scope['headers']" and dc and hs[0].lineno > g.node(dc[0]).line
    muts = [c for c in calls(pf) if call_name(c) in ("headers.append", "headers.extend", "headers.insert")]
    def _fresh(val, depth=0):
        if isinstance(val, (ast.ListComp, ast.List)) or (isinstance(val, ast.Call) and call_name(val) == "list"):
            return True
        if isinstance(val, ast.Name) and depth < 3:
            defs_ = [n for n in walk_local(pf) if isinstance(n, (ast.Assign, ast.AnnAssign)) and dotted(n.targets[0] if isinstance(n, ast.Assign) else n.target) == val.id and getattr(n, "value", None) is not None]
            return bool(defs_) and all(_fresh(d_.value, depth + 1) for d_ in defs_)
        return False

    for c in muts:
        before = [s for s in hs if s.lineno < c.lineno]
        ok = ok and bool(before) and _fresh(max(before, key=lambda s: s.lineno).value)
    ctx.check("C20.R2", wp, "header list rebuilt (not mutated in place) before host is replaced", ok, "the caller's header list would be mutated", pf)
    appc = [c for c in calls(pf) if call_name(c) == "self.app"]
    ok = len(appc) == 1 and [norm(a) for a in appc[0].args] == ["scope", "receive", "send"] and not guard_atoms(appc[0])
    ctx.check("C20.R2", wp, "app(scope, receive, send) always called once", ok, "every scope must reach the wrapped application", pf)
    sets = {norm(n.targets[0]): (norm(n.value), guard_atoms(n) - {a for a in guard_atoms(n) if "scope['type']" in a[0]}) for n in walk_local(pf) if isinstance(n, ast.Assign) and isinstance(n.targets[0], ast.Subscript) and norm(n.targets[0].value) == "scope"}
    want = {"scope['client']": ("(client, 0)", {("client is not None", True)}), "scope['scheme']": ("scheme", {("scheme is not None", True)}), "scope['headers']": ("headers", {("host is not None", True)})}
    ctx.check("C20.R2", wp, "client/scheme/host written only when a trusted value exists", sets == want, f"scope writes: {sets}", pf)
    legacy = {norm(n.targets[0]): norm(n.value) for n in walk_local(pf) if isinstance(n, ast.Assign) and isinstance(n.value, ast.Call) and call_name(n.value) == "_get_trusted_value"}
    wantl = {"client": "_get_trusted_value(b'x-forwarded-for', headers, self.trusted_hops)", "scheme": "_get_trusted_value(b'x-forwarded-proto', headers, self.trusted_hops)", "host": "_get_trusted_value(b'x-forwarded-host', headers, self.trusted_hops)"}
    ctx.check("C20.R2", wp, "legacy mode reads x-forwarded-for/proto/host with the configured hop count", legacy == wantl and "_get_trusted_value(b'forwarded', headers, self.trusted_hops)" in norm(pf), f"legacy lookups: {legacy}", pf)

    modern_if = [n for n in walk_local(pf) if isinstance(n, ast.If) and "self.mode == 'modern'" in norm(n.test)]
    legacy_calls = [c for c in calls(pf) if call_name(c) == "_get_trusted_value" and "x-forwarded" in norm(c)]
    ok = len(modern_if) == 1 and len(legacy_calls) == 3 and all(any(c is x for st in modern_if[0].orelse for x in ast.walk(st)) for c in legacy_calls)
    inits = {dotted(n.target if isinstance(n, ast.AnnAssign) else n.targets[0]): norm(n.value) for n in walk_local(pf) if isinstance(n, (ast.AnnAssign, ast.Assign)) and getattr(n, "value", None) is not None and (dotted(n.target if isinstance(n, ast.AnnAssign) else n.targets[0]) in ("client", "scheme", "host")) and n.lineno < (modern_if[0].lineno if modern_if else 0)}
    ok = ok and inits == {"client": "None", "scheme": "None", "host": "None"}
    ctx.check("C20.R2", wp, "legacy X-Forwarded-* headers are consulted only when the modern Forwarded header is not used; fields start as None", ok, "in modern mode a field missing from the trusted Forwarded element would be filled from client-controllable X-Forwarded-* headers", modern_if[0] if modern_if else pf)

    # ---- R3
    dm = repo.func("middleware.dispatcher", "_DispatcherMiddleware.__call__")
    wd = "middleware.dispatcher:_DispatcherMiddleware.__call__"
    loops = [n for n in walk_local(dm) if isinstance(n, ast.For)]
    ok = len(loops) == 1 and norm(loops[0].iter) == "self.mounts.items()" and isinstance(loops[0].target, ast.Tuple) and len(loops[0].target.elts) == 2 and all(isinstance(e, ast.Name) for e in loops[0].target.elts)
    pv, av = (loops[0].target.elts[0].id, loops[0].target.elts[1].id) if ok else ("path", "app")
    ctx.check("C20.R3", wd, "for path, app in self.mounts.items()", ok, "mounts must be tried in insertion order", loops[0] if loops else dm)
    rets = [n for n in walk_local(dm) if isinstance(n, ast.Return) and n.value is not None and any(a is loops[0] for a in ancestors(n))] if loops else []
    ok = len(rets) == 1 and norm(rets[0].value) == f"await {av}(scope, receive, send)" and (f"scope['path'].startswith({pv})", True) in guard_atoms(rets[0]) and loops and any(a is loops[0] for a in ancestors(rets[0]))
    ctx.check("C20.R3", wd, "first prefix match returns app(scope, receive, send)", ok, "the first matching mount must handle the request and stop the search", rets[0] if rets else dm)
    rw = [n for n in walk_local(dm) if isinstance(n, ast.Assign) and norm(n.targets[0]) == "scope['path']"]
    ok = len(rw) == 1 and norm(rw[0].value) == f"scope['path'][len({pv}):] or '/'" and rets and rw[0].lineno < rets[0].lineno and guard_atoms(rw[0]) == guard_atoms(rets[0])
    ctx.check("C20.R3", wd, "scope['path'] = scope['path'][len(path):] or '/'", ok, f"path rewritten as {[norm(r.value) for r in rw]}", rw[0] if rw else dm)
    g = CFG(dm)
    starts = g.where(has_stmt(lambda n: isinstance(n, ast.Call) and call_name(n) == "send" and "'status': 404" in norm(n)))
    ok = len(starts) == 1 and loops and g.node(starts[0]).line > loops[0].end_lineno and "http.response.body" in norm(dm)
    ctx.check("C20.R3", wd, "no mount matched -> 404", ok, "unmatched requests must be answered 404", dm)
    lf = [c for c in calls(dm) if call_name(c) == "self._handle_lifespan"]
    ok = len(lf) == 1 and ("scope['type'] == 'lifespan'", True) in guard_atoms(lf[0])
    ctx.check("C20.R3", wd, "lifespan scopes go to the fan-out", ok, "lifespan must be fanned out, not routed by path", dm)

    di = repo.func("middleware.dispatcher", "_DispatcherMiddleware.__init__")
    st_ = [n for n in walk_local(di) if isinstance(n, ast.Assign) and dotted(n.targets[0]) == "self.mounts"]
    ctx.check("C20.R3", "middleware.dispatcher:_DispatcherMiddleware.__init__", "mount table stored as given (order preserved)", len(st_) == 1 and norm(st_[0].value) == "mounts", f"self.mounts = {[norm(x.value) for x in st_]}: re-ordering the table changes which mount is the FIRST match", st_[0] if st_ else di)
    # ---- R4
    for cls in ("AsyncioDispatcherMiddleware", "TrioDispatcherMiddleware"):
        sd = repo.func("middleware.dispatcher", f"{cls}.send")
        ws = f"middleware.dispatcher:{cls}.send"
        for stage in ("startup", "shutdown"):
            fw = [c for c in calls(sd) if call_name(c) == "send" and f"lifespan.{stage}.complete" in norm(c)]
            ok = len(fw) == 1
            if ok:
                ga = guard_atoms(fw[0])
                ok = (f"message['type'] == 'lifespan.{stage}.complete'", True) in ga and (f"all(self.{stage}_complete.values())", True) in ga
                flag = [n for n in walk_local(sd) if isinstance(n, ast.Assign) and norm(n.targets[0]) == f"self.{stage}_complete[path]" and norm(n.value) == "True"]
                ok = ok and len(flag) == 1 and flag[0].lineno < fw[0].lineno and (f"message['type'] == 'lifespan.{stage}.complete'", True) in guard_atoms(flag[0])
                other = "shutdown" if stage == "startup" else "startup"
                ok = ok and not any(f"self.{other}_complete" in a[0] for a in ga)
            ctx.check("C20.R4", ws, f"{stage}.complete forwarded iff all(self.{stage}_complete.values()) after marking this mount", ok, f"lifespan.{stage}.complete would be reported before every mount finished its {stage} (or never)", fw[0] if fw else sd)
        hl = repo.func("middleware.dispatcher", f"{cls}._handle_lifespan")
        from .common import test_between

        gl = CFG(hl)
        rcv = gl.where(has_stmt(lambda n: isinstance(n, ast.Call) and call_name(n) == "receive" and not n.args))
        relay = has_stmt(lambda n: isinstance(n, ast.Call) and isinstance(n.func, ast.Attribute) and n.func.attr in ("put", "send") and len(n.args) == 1 and norm(n.args[0]) == "message")
        tb = test_between(gl, rcv, lambda nd: relay(nd) or nd.kind == "iter") if rcv else "unreached"
        ctx.check("C20.R4", f"middleware.dispatcher:{cls}._handle_lifespan", "every received lifespan message - lifespan.shutdown included - is relayed to the mounts before the loop's exit test", tb is None, "the relay loop tests for lifespan.shutdown before forwarding: the mounts never see lifespan.shutdown and the combined shutdown never completes", tb.ast if hasattr(tb, "ast") else hl)
        src = norm(hl)
        flags_ok = True
        for stage_ in ("startup", "shutdown"):
            asg_ = [n for n in walk_local(hl) if isinstance(n, ast.Assign) and dotted(n.targets[0]) == f"self.{stage_}_complete"]
            try:
                val_ = eval_expr(asg_[0].value, {"self.mounts": {"/a": 1, "/b": 2}}) if len(asg_) == 1 else None
            except Exception:
                val_ = None
            flags_ok = flags_ok and val_ == {"/a": False, "/b": False}
        ok = flags_ok and "partial(self.send, path, send)" in src
        ctx.check("C20.R4", f"middleware.dispatcher:{cls}._handle_lifespan", "per-mount flags initialised False; each mount gets send bound to its own path", ok, "fan-out bookkeeping changed", hl)

    # ---- R5
    hc = repo.func("middleware.http_to_https", "HTTPToHTTPSRedirectMiddleware.__call__")
    wh = "middleware.http_to_https:HTTPToHTTPSRedirectMiddleware.__call__"
    hr = [c for c in calls(hc) if call_name(c) == "self._send_http_redirect"]
    wr = [c for c in calls(hc) if call_name(c) == "self._send_websocket_redirect"]
    pt = [c for c in calls(hc) if call_name(c) == "self.app"]
    ok = len(hr) == 1 and {("scope['type'] == 'http'", True), ("scope['scheme'] == 'http'", True)} <= guard_atoms(hr[0])
    ctx.check("C20.R5", wh, "http + scheme http -> redirect", ok, "cleartext HTTP requests must be redirected", hr[0] if hr else hc)
    ok = len(wr) == 1 and {("scope['type'] == 'websocket'", True), ("scope['scheme'] == 'ws'", True)} <= guard_atoms(wr[0])
    ctx.check("C20.R5", wh, "websocket + scheme ws -> redirect (or close when the extension is missing)", ok, "cleartext WebSocket requests must be redirected", wr[0] if wr else hc)
    ok = len(pt) == 1 and [norm(a) for a in pt[0].args] == ["scope", "receive", "send"]
    if ok:
        ga = guard_atoms(pt[0])
        # pass-through exactly when neither redirect predicate holds: evaluate
        from ..pred import guards_table

        def canon(t):
            return {"scope['type'] == 'http'": "is_http", "scope['scheme'] == 'http'": "s_http", "scope['type'] == 'websocket'": "is_ws", "scope['scheme'] == 'ws'": "s_ws"}.get(t)

        cex = guards_table(guards(pt[0]), lambda e: not ((e.get("is_http") and e.get("s_http")) or (e.get("is_ws") and e.get("s_ws"))), {}, canon)
        ok = cex is None
    ctx.check("C20.R5", wh, "secure / other scopes passed through unchanged", ok, "secure requests must reach the application with the same scope, receive and send", pt[0] if pt else hc)
    # scopes of other types (lifespan) carry no `scheme`: it may only be read once the type is known
    reads = [n for n in ast.walk(hc) if isinstance(n, ast.Subscript) and isinstance(n.ctx, ast.Load) and norm(n) == "scope['scheme']"]
    early = [n for n in reads if not any(a[1] and a[0] in ("scope['type'] == 'http'", "scope['type'] == 'websocket'") for a in guard_atoms(n))]
    ctx.check("C20.R5", wh, "scope['scheme'] is read only for http / websocket scopes", bool(reads) and not early, "scope['scheme'] is read before the scope type is known: a lifespan scope has no scheme, the KeyError makes the server treat lifespan as unsupported and the wrapped application's startup / shutdown never run", early[0] if early else hc)

    # ---- R6
    nu = repo.func("middleware.http_to_https", "HTTPToHTTPSRedirectMiddleware._new_url")
    wn = "middleware.http_to_https:HTTPToHTTPSRedirectMiddleware._new_url"
    from ..astq import expand_locals
    from ..pred import eval_function as _evf20

    imp = [n for n in repo.module("middleware.http_to_https").tree.body if isinstance(n, ast.ImportFrom) and n.module == "urllib.parse" and any(a.name == "urlunsplit" and a.asname is None for a in n.names)]
    ctx.check("C20.R6", wn, "urlunsplit is urllib.parse.urlunsplit", len(imp) == 1, "URL assembly must use urllib.parse.urlunsplit", None)
    pn = [a.arg for a in nu.args.args][1:]
    table = [
        (None, [(b"host", b"example.com")], "", b"/a/b", b"x=1", "https", "https://example.com/a/b?x=1"),
        (None, [(b"accept", b"*"), (b"host", b"example.com")], "/app", b"/a%20b", b"", "https", "https://example.com/app/a%20b"),
        ("fixed.example", [(b"host", b"example.com")], "", b"/", b"q", "wss", "wss://fixed.example/?q"),
        (None, [(b"host", b"first.example"), (b"host", b"second.example")], "", b"/", b"", "https", "https://first.example/"),
        (None, [], "", b"/", b"", "https", "raise"),
    ]
    for host, hdrs, root, raw, qs, scheme, want in table:
        scope_ = {"headers": hdrs, "raw_path": raw, "query_string": qs}
        if root:
            scope_["root_path"] = root
        try:
            got = _evf20(nu, {"self.host": host, pn[0]: scheme, pn[1]: scope_}) if len(pn) == 2 else "wrong signature"
        except Exception as error:
            got = "raise" if "ValueError" in str(error) else f"not evaluable: {error}"
        ctx.check("C20.R6", wn, f"_new_url({scheme!r}, host={host!r}, headers={hdrs}, root_path={root!r}, raw_path={raw!r}, query={qs!r})", got == want, f"gives {got!r}, expected {want!r}: the redirect must keep root_path + raw path + query and take the host from the constructor value, else from the first host header", nu)
    hredir = repo.func("middleware.http_to_https", "HTTPToHTTPSRedirectMiddleware._send_http_redirect")
    wredir = repo.func("middleware.http_to_https", "HTTPToHTTPSRedirectMiddleware._send_websocket_redirect")
    for fn_, start_t, body_t, label in ((hredir, "http.response.start", "http.response.body", "_send_http_redirect"), (wredir, "websocket.http.response.start", "websocket.http.response.body", "_send_websocket_redirect")):
        sends = [c for c in calls(fn_) if call_name(c) == "send" and c.args and isinstance(c.args[0], ast.Dict)]
        types = [norm(v) for c in sends for k, v in zip(c.args[0].keys, c.args[0].values) if norm(k) == "'type'"]
        ok = types == [f"'{start_t}'", f"'{body_t}'"]
        if ok:
            d0 = dict((norm(k), v) for k, v in zip(sends[0].args[0].keys, sends[0].args[0].values))
            loc = norm(expand_locals(d0.get("'headers'"), fn_)) if d0.get("'headers'") is not None else ""
            want_call = "self._new_url('https', scope)" if fn_ is hredir else "self._new_url(scheme, scope)"
            ok = norm(d0.get("'status'")) == "307" and loc == f"[(b'location', {want_call}.encode())]"
        if ok and fn_ is wredir:
            sch = [n for n in walk_local(wredir) if isinstance(n, ast.Assign) and dotted(n.targets[0]) == "scheme"]
            ok = sorted(norm(s_.value) for s_ in sch) == ["'https'", "'wss'"] and all((("scope.get('http_version', '1.1') == '2'", True) in guard_atoms(s_)) == (norm(s_.value) == "'https'") or (norm(s_.value) == "'wss'" and (not guard_atoms(s_) or ("scope.get('http_version', '1.1') == '2'", False) in guard_atoms(s_))) for s_ in sch)
        ctx.check("C20.R6", f"middleware.http_to_https:HTTPToHTTPSRedirectMiddleware.{label}", "307 with location = the new URL" + (" (https on HTTP/2, else wss)" if fn_ is wredir else " (https)"), ok, "redirect response changed", fn_)

    ctx.assume("not decided: string-level results for arbitrary header contents (RFC 7239 quoting, IPv6 literals), urlunsplit semantics")
