"""C14 — lifespan ordering, failure handling, state isolation (structural clauses)."""
from __future__ import annotations

import ast

from ..astq import ancestors, arg, call_name, calls, dotted, find_calls, guard_atoms, guards, kwarg, norm, provenance, walk_local
from ..cfg import CFG, stmt_has
from ..core import Ctx
from .common import arm_for, explain, find_in, has_call, has_stmt
from .c08 import handler_classes

ACCEPT_CALLS = {
    "asyncio.run": ["asyncio.start_server", "loop.create_datagram_endpoint"],
    "trio.run": ["trio.serve_listeners", "server_nursery.start", "sock.listen"],
}


def _mentions(name: str):
    return lambda node: stmt_has(node, lambda n: (isinstance(n, ast.Attribute) and dotted(n) == name) or (isinstance(n, ast.Call) and call_name(n) == name))


def run(ctx: Ctx) -> None:
    if getattr(ctx, "_depth", 0) >= 2:
        return  # alias of an alias: not followed (breaks import cycles between rule modules)
    repo = ctx.repo
    ctx.rule("C14.R1", "every path of worker_serve to a call that lets connections in (start_server, create_datagram_endpoint, serve_listeners, UDP server start, listen) passes `await lifespan.wait_for_startup()`; create_sockets too", floor=6)
    ctx.rule("C14.R2", "a failed startup aborts: asyncio re-raises the finished lifespan task's exception before creating servers; trio runs handle_lifespan in a nursery enclosing the servers; asgi_send raises LifespanFailureError for *.failed and handle_lifespan re-raises it", floor=8)
    ctx.rule("C14.R3", "startup/shutdown waits are bounded by config.startup_timeout / config.shutdown_timeout and turn the timeout into LifespanTimeoutError", floor=4)
    ctx.rule("C14.R4", "lifespan.shutdown is requested from exactly one call site per worker, outside any loop, after the connection-drain construct", floor=4)
    ctx.rule("C14.R5", "each connection gets ConnectionState(<lifespan state>.copy()) built inside the per-connection handler; the dict copied is the very object given to (and stored by) the Lifespan", floor=6)
    ctx.rule("C14.R6", "unsupported lifespan: the generic except arm marks it unsupported and logs; the finally releases both waits; waits return at once when unsupported", floor=6)
    ctx.rule("C14.R7", "wait_for_startup sends exactly lifespan.startup, wait_for_shutdown exactly lifespan.shutdown; *.complete messages release the matching wait", floor=8)

    for mod in ("asyncio.run", "trio.run"):
        ws = repo.func(mod, "worker_serve")
        w = f"{mod}:worker_serve"
        g = CFG(ws)
        su = g.where(has_call("lifespan.wait_for_startup"))
        ctx.need(len(su) == 1, f"{w}: wait_for_startup call not found")
        awaited = all(isinstance(getattr(c, "_parent", None), ast.Await) for c in find_calls(ws, "lifespan.wait_for_startup"))
        for name in ACCEPT_CALLS[mod] + ["config.create_sockets", "TCPServer", "UDPServer", "lifespan_state.copy"]:
            sites = g.where(_mentions(name))
            if name in ("TCPServer", "UDPServer"):
                sites = [s for s in sites if g.node(s).kind != "stmt" or not isinstance(g.node(s).ast, (ast.FunctionDef, ast.AsyncFunctionDef))]
            for s in sites:
                ok = g.dominates(lambda n: n.id == su[0], s) and awaited
                ctx.check("C14.R1", w, f"wait_for_startup dominates {name}", ok, f"{name} can be reached before lifespan startup completed: connections would be accepted / served first", g.node(s).ast)
        # nested callbacks (asyncio _server_callback) are only *defined* before; they run when a server exists
        # R4
        sd = find_calls(ws, "lifespan.wait_for_shutdown")
        ok = len(sd) == 1 and isinstance(getattr(sd[0], "_parent", None), ast.Await) and not any(isinstance(a, (ast.For, ast.While, ast.AsyncFor)) for a in ancestors(sd[0]))
        ctx.check("C14.R4", w, "one wait_for_shutdown site, not in a loop", ok, f"{len(sd)} call sites of wait_for_shutdown", sd[0] if sd else ws)
        sdn = g.where(has_call("lifespan.wait_for_shutdown"))
        if mod == "asyncio.run":
            drain = g.where(has_call("asyncio.wait_for"))
            ok = bool(sdn) and bool(drain) and all(g.dominates(lambda n: n.id in drain, s, skip_labels=("exc", "uncaught")) for s in sdn)
            ctx.check("C14.R4", w, "shutdown after the bounded wait for connections", ok, "lifespan.shutdown is sent before connections were given the grace period", sd[0] if sd else ws)
            term = g.where(has_call("context.terminated.set"))
            ok = bool(term) and all(g.dominates(lambda n: n.id in term, s) for s in sdn)
            ctx.check("C14.R4", w, "shutdown after terminated.set()", ok, "lifespan.shutdown before the worker stopped taking work", sd[0] if sd else ws)
        else:
            # trio: the call must be outside (after) the `async with ... as server_nursery` block and inside the lifespan nursery
            inner = [n for n in walk_local(ws) if isinstance(n, ast.AsyncWith) and any(norm(i.optional_vars) == "server_nursery" for i in n.items if i.optional_vars is not None)]
            outer = [n for n in walk_local(ws) if isinstance(n, ast.AsyncWith) and any(norm(i.optional_vars) == "lifespan_nursery" for i in n.items if i.optional_vars is not None)]
            ok = len(inner) == 1 and len(outer) == 1 and sd and not any(a is inner[0] for a in ancestors(sd[0])) and any(a is outer[0] for a in ancestors(sd[0])) and sd[0].lineno > inner[0].end_lineno
            ctx.check("C14.R4", w, "shutdown after the server nursery has drained", bool(ok), "lifespan.shutdown must be sent after the server nursery (connections) exited", sd[0] if sd else ws)
            term = g.where(has_call("context.terminated.set"))
            ok = bool(term) and bool(sdn) and all(g.dominates(lambda n: n.id in term, s) for s in sdn)
            ctx.check("C14.R4", w, "shutdown after terminated.set()", ok, "lifespan.shutdown before the worker stopped taking work", sd[0] if sd else ws)

    # R2
    ws = repo.func("asyncio.run", "worker_serve")
    g = CFG(ws)
    rz = [n for n in walk_local(ws) if isinstance(n, ast.Raise) and norm(n.exc) == "exception"]
    ok = len(rz) == 1
    if ok:
        ga = guard_atoms(rz[0])
        ok = ("lifespan_task.done()", True) in ga and ("exception is not None", True) in ga and "lifespan_task.exception()" in norm(ws)
        tn = [n.id for n in g.nodes if n.kind == "test" and norm(n.ast.test) == "lifespan_task.done()"]
        ss = g.where(has_call("asyncio.start_server"))
        su = g.where(has_call("lifespan.wait_for_startup"))
        ok = ok and bool(tn) and all(g.dominates(lambda n: n.id in tn, s) for s in ss) and g.dominates(lambda n: n.id in su, tn[0])
    ctx.check("C14.R2", "asyncio.run:worker_serve", "finished lifespan task's exception re-raised before servers are created", ok, "a lifespan.startup.failed would be ignored and the server would start", rz[0] if rz else ws)
    lt = [n for n in walk_local(ws) if isinstance(n, ast.Assign) and dotted(n.targets[0]) == "lifespan_task"]
    ok = len(lt) == 1 and "lifespan.handle_lifespan()" in norm(lt[0].value) and "create_task" in norm(lt[0].value)
    ctx.check("C14.R2", "asyncio.run:worker_serve", "handle_lifespan started as a task before wait_for_startup", ok and lt[0].lineno < find_calls(ws, "lifespan.wait_for_startup")[0].lineno, "the lifespan task must run before startup is awaited", lt[0] if lt else ws)
    wst = repo.func("trio.run", "worker_serve")
    st = [c for c in calls(wst) if call_name(c) == "lifespan_nursery.start" and norm(arg(c, 0)) == "lifespan.handle_lifespan"]
    outer = [n for n in walk_local(wst) if isinstance(n, ast.AsyncWith) and any(norm(i.optional_vars) == "lifespan_nursery" for i in n.items if i.optional_vars is not None)]
    sl = [c for c in calls(wst) if "trio.serve_listeners" in norm(c)]
    ok = len(st) == 1 and len(outer) == 1 and sl and all(any(a is outer[0] for a in ancestors(c)) for c in sl) and st[0].lineno < find_calls(wst, "lifespan.wait_for_startup")[0].lineno
    ctx.check("C14.R2", "trio.run:worker_serve", "handle_lifespan runs in a nursery that encloses the servers", bool(ok), "a lifespan failure would not cancel the servers", st[0] if st else wst)
    for mod in ("asyncio.lifespan", "trio.lifespan"):
        snd = repo.func(mod, "Lifespan.asgi_send")
        for stage in ("startup", "shutdown"):
            rs = [n for n in walk_local(snd) if isinstance(n, ast.Raise) and "LifespanFailureError" in norm(n) and f"'{stage}'" in norm(n)]
            ok = len(rs) == 1 and (f"message['type'] == 'lifespan.{stage}.failed'", True) in guard_atoms(rs[0])
            ctx.check("C14.R2", f"{mod}:Lifespan.asgi_send", f"lifespan.{stage}.failed -> raise LifespanFailureError", ok, f"lifespan.{stage}.failed must abort", rs[0] if rs else snd)
        for stage, ev in (("startup", "self.startup.set"), ("shutdown", "self.shutdown.set")):
            early = [c for c in find_calls(snd, "self.startup.set", "self.shutdown.set") if any(a[1] and ".failed'" in a[0] for a in guard_atoms(c))]
            ctx.check("C14.R2", f"{mod}:Lifespan.asgi_send", f"{stage}.failed does not release the wait itself", not early,
                      "asgi_send releases the startup/shutdown wait before raising: if the application awaits anything while the LifespanFailureError unwinds, wait_for_startup() returns while the lifespan task is still running, the failure check passes and the server starts serving after lifespan.startup.failed", early[0] if early else snd)
        hl0 = repo.func(mod, "Lifespan.handle_lifespan")
        sg = [n for n in walk_local(hl0) if isinstance(n, ast.Assign) and isinstance(n.value, ast.Call) and isinstance(n.value.func, ast.Attribute) and n.value.func.attr in ("subgroup", "split")]
        okg = len(sg) == 1 and isinstance(sg[0].targets[0], ast.Name) and sg[0].value.func.attr == "subgroup" and "LifespanFailureError" in norm(sg[0].value)
        if okg:
            v_ = sg[0].targets[0].id
            rz_ = [n for n in walk_local(hl0) if isinstance(n, ast.Raise) and norm(n.exc) == v_]
            in_group_handler = bool(rz_) and any(isinstance(a, ast.ExceptHandler) and "BaseExceptionGroup" in handler_classes(a) and not (handler_classes(a) - {"BaseExceptionGroup", "ExceptionGroup"}) for a in ancestors(rz_[0]))
            okg = len(rz_) == 1 and (f"{v_} is not None", True) in guard_atoms(rz_[0]) and (in_group_handler or any("isinstance(error, BaseExceptionGroup)" in a[0] and a[1] for a in guard_atoms(rz_[0])))
            # ... and it happens before the failure is downgraded to 'unsupported'
            sup = [n for n in walk_local(hl0) if isinstance(n, ast.Assign) and dotted(n.targets[0]) == "self.supported" and any(a is x for x in ancestors(n) for a in [h_ for h_ in ancestors(rz_[0]) if isinstance(h_, ast.ExceptHandler)])] if rz_ else []
            okg = okg and all(rz_[0].lineno < n.lineno for n in sup)
        ctx.check("C14.R2", f"{mod}:Lifespan.handle_lifespan", "exception group: the LifespanFailureError/cancellation SUBGROUP is re-raised when present", okg, "a startup failure wrapped in an exception group (task group / nursery inside the application) would be treated as 'lifespan unsupported'", sg[0] if sg else hl0)
        hl = repo.func(mod, "Lifespan.handle_lifespan")
        trys = [n for n in walk_local(hl) if isinstance(n, ast.Try)]
        ok = len(trys) == 1 and trys[0].handlers
        if ok:
            h0 = trys[0].handlers[0]
            ok = "LifespanFailureError" in handler_classes(h0) and len(h0.body) == 1 and isinstance(h0.body[0], ast.Raise) and h0.body[0].exc is None
        ctx.check("C14.R2", f"{mod}:Lifespan.handle_lifespan", "first handler re-raises LifespanFailureError", bool(ok), "a startup failure would be downgraded to 'lifespan unsupported'", hl)

    # R3
    for mod in ("asyncio.lifespan", "trio.lifespan"):
        for stage, ev in (("startup", "self.startup"), ("shutdown", "self.shutdown")):
            fn = repo.func(mod, f"Lifespan.wait_for_{stage}")
            src = norm(fn)
            if mod.startswith("asyncio"):
                wf = [c for c in calls(fn) if call_name(c) == "asyncio.wait_for"]
                ok = len(wf) == 1 and norm(arg(wf[0], 0)) == f"{ev}.wait()" and norm(arg(wf[0], 1, "timeout")) == f"self.config.{stage}_timeout"
                hs = [h for t in walk_local(fn) if isinstance(t, ast.Try) for h in t.handlers if "TimeoutError" in handler_classes(h)]
                ok = ok and len(hs) == 1 and "TimeoutError" in handler_classes(hs[0]) and any(isinstance(s, ast.Raise) and "LifespanTimeoutError" in norm(s) for s in hs[0].body)
            else:
                fa = [n for n in walk_local(fn) if isinstance(n, ast.With) and norm(n.items[0].context_expr) == f"trio.fail_after(self.config.{stage}_timeout)"]
                ok = len(fa) == 1 and any(f"{ev}.wait()" in norm(s) for s in fa[0].body)
                hs = [h for t in walk_local(fn) if isinstance(t, ast.Try) for h in t.handlers if "TooSlowError" in handler_classes(h)]
                ok = ok and len(hs) == 1 and "TooSlowError" in handler_classes(hs[0]) and any(isinstance(s, ast.Raise) and "LifespanTimeoutError" in norm(s) for s in hs[0].body)
            ctx.check("C14.R3", f"{mod}:Lifespan.wait_for_{stage}", f"wait bounded by config.{stage}_timeout -> LifespanTimeoutError", ok, f"{stage} wait is unbounded or its timeout is swallowed", fn)
            # R7
            puts = [c for c in calls(fn) if call_name(c) in ("self.app_queue.put", "self.app_send_channel.send")]
            ok = len(puts) == 1 and norm(arg(puts[0], 0)) == "{'type': 'lifespan.%s'}" % stage and isinstance(getattr(puts[0], "_parent", None), ast.Await)
            ga = guard_atoms(puts[0]) if puts else set()
            ok = ok and ga <= {("self.supported", True), ("not self.supported", False)}
            if mod.startswith("trio") and puts:
                cov = [h for t_ in walk_local(fn) if isinstance(t_, ast.Try) and any(puts[0] is x for s_ in t_.body for x in ast.walk(s_)) for h in t_.handlers]
                got = set().union(*[handler_classes(h) for h in cov]) if cov else set()
                okc = {"BrokenResourceError", "ClosedResourceError"} <= got and all(isinstance(h.body[-1], ast.Return) for h in cov)
                ctx.check("C14.R6", f"{mod}:Lifespan.wait_for_{stage}", "application already left the lifespan scope (channel closed) -> return", okc,
                          "handle_lifespan closes its channels when the application returns; an application that returns immediately for the lifespan scope (every WSGI application) makes this send raise ClosedResourceError and the trio worker never starts", puts[0])
            ctx.check("C14.R7", f"{mod}:Lifespan.wait_for_{stage}", f"sends lifespan.{stage} exactly once", ok, f"wait_for_{stage} must deliver lifespan.{stage} to the application", puts[0] if puts else fn)
            # R6: returns at once when unsupported
            # everything the wait does after the handshake with the lifespan task happens only while supported
            ok = bool(puts) and all(("self.supported", True) in guard_atoms(p_) for p_ in puts)
            ctx.check("C14.R6", f"{mod}:Lifespan.wait_for_{stage}", "returns immediately when lifespan is unsupported", ok, "an application without lifespan support would block the server", fn)
        snd = repo.func(mod, "Lifespan.asgi_send")
        for stage, ev in (("startup", "self.startup.set"), ("shutdown", "self.shutdown.set")):
            cs = [c for c in find_calls(snd, ev) if (f"message['type'] == 'lifespan.{stage}.complete'", True) in guard_atoms(c)]
            ctx.check("C14.R7", f"{mod}:Lifespan.asgi_send", f"lifespan.{stage}.complete -> {ev}()", len(cs) == 1, f"{stage}.complete must release the {stage} wait", snd)
            wrong = [c for c in find_calls(snd, ev) if any(a[1] and f"lifespan.{'shutdown' if stage == 'startup' else 'startup'}." in a[0] for a in guard_atoms(c))]
            ctx.check("C14.R7", f"{mod}:Lifespan.asgi_send", f"{ev}() not triggered by the other stage", not wrong, f"{ev}() is reachable from a message of the other stage", wrong[0] if wrong else snd)
        # R6 generic arm + finally
        hl = repo.func(mod, "Lifespan.handle_lifespan")
        t = [n for n in walk_local(hl) if isinstance(n, ast.Try)][0]
        gen = [h for h in t.handlers if "Exception" in handler_classes(h)]
        ok = len(gen) == 1 and any(norm(s) == "self.supported = False" for s in gen[0].body) and any("self.config.log." in norm(s) for s in ast.walk(gen[0]) if isinstance(s, ast.Call))
        ctx.check("C14.R6", f"{mod}:Lifespan.handle_lifespan", "generic failure -> supported = False + log", ok, "an application that raises on the lifespan scope must be treated as 'lifespan unsupported' and logged", hl)
        fb = [norm(s) for s in t.finalbody]
        ok = "self.startup.set()" in fb and "self.shutdown.set()" in fb
        ctx.check("C14.R6", f"{mod}:Lifespan.handle_lifespan", "finally: startup.set(); shutdown.set()", ok, "waits would hang if the application returns early", hl)
        appc = [c for c in calls(hl) if call_name(c) == "self.app"]
        ok = len(appc) == 1 and norm(arg(appc[0], 1)) == "self.asgi_receive" and norm(arg(appc[0], 2)) == "self.asgi_send" and norm(arg(appc[0], 0)) == "scope"
        sc = [n for n in walk_local(hl) if isinstance(n, (ast.Assign, ast.AnnAssign)) and dotted(n.targets[0] if isinstance(n, ast.Assign) else n.target) == "scope"]
        ok = ok and len(sc) == 1 and "'type': 'lifespan'" in norm(sc[0].value) and "'state': self.state" in norm(sc[0].value)
        ctx.check("C14.R7", f"{mod}:Lifespan.handle_lifespan", "app(lifespan scope with state, asgi_receive, asgi_send)", ok, "the lifespan scope must carry the shared state dict", hl)

    # R5: the lifespan scope and the connections must share ONE dict object (the worker's), copied per connection
    for mod, wmod in (("asyncio.lifespan", "asyncio.run"), ("trio.lifespan", "trio.run")):
        ini = repo.func(mod, "Lifespan.__init__")
        params = [a.arg for a in ini.args.args]
        st = [n for n in walk_local(ini) if isinstance(n, (ast.Assign, ast.AnnAssign)) and dotted(n.targets[0] if isinstance(n, ast.Assign) else n.target) == "self.state"]
        ok = len(st) == 1 and isinstance(st[0].value, ast.Name) and st[0].value.id in params and not guard_atoms(st[0])
        ctx.check("C14.R5", f"{mod}:Lifespan.__init__", "self.state is the dict object it was given (no copy, no `or {}`, no default)", ok, f"self.state = {norm(st[0].value) if st else '?'}: the lifespan scope would write into a different dict from the one the connections copy (an empty dict is falsy, so `x or {{}}` replaces it): connections never see what startup stored", st[0] if st else ini)
        ws_ = repo.func(wmod, "worker_serve")
        lc = [c for c in calls(ws_) if call_name(c) == "Lifespan"]
        okw = len(lc) == 1 and st and isinstance(st[0].value, ast.Name)
        if okw:
            idx = params.index(st[0].value.id) - 1 if st[0].value.id in params else -1
            passed = arg(lc[0], idx, st[0].value.id) if idx >= 0 else None
            okw = passed is not None and norm(passed) == "lifespan_state"
        ctx.check("C14.R5", f"{wmod}:worker_serve", "Lifespan(..., lifespan_state): the dict the connections copy is the one given to the lifespan", bool(okw), "the lifespan scope and the connections do not share the worker's state dict", lc[0] if lc else ws_)
    for mod in ("asyncio.tcp_server", "trio.tcp_server"):
        run_ = repo.func(mod, "TCPServer.run")
        pw = [c for c in calls(run_) if call_name(c) == "ProtocolWrapper"]
        ok = len(pw) == 1 and len(pw[0].args) >= 5 and norm(pw[0].args[4]) == "ConnectionState(self.state.copy())"
        ctx.check("C14.R5", f"{mod}:TCPServer.run", "ProtocolWrapper(..., ConnectionState(self.state.copy()), ...)", ok, f"connection state passed as {norm(pw[0].args[4]) if pw and len(pw[0].args) >= 5 else '?'}: connections would share (and mutate) one state dict", pw[0] if pw else run_)

    from ..core import Alias
    from . import c16

    from . import c15

    c15.run(Alias(ctx, "C14.R9", "trio: connection handlers run in the nursery that is drained (deadline = graceful timeout) before lifespan.shutdown is sent, not in the lifespan nursery (C15.R2)", only={"C15.R2"}))
    c16.run(Alias(ctx, "C14.R8", "both workers realise the same lifespan skeletons (handle_lifespan, wait_for_startup/shutdown, asgi_send) and the same per-connection state copy (C16.R1/R2)", only={"C16.R1", "C16.R2"}, where=["lifespan", "TCPServer.run"]))
    ctx.assume("not decided: races between startup completion and lifespan task completion; connections queued in the kernel backlog of an inherited listening socket; that state.copy() is a sufficient (shallow) copy")
