"""C04 — no client input causes an internal error (exception-escape analysis + library signatures)."""
from __future__ import annotations

import ast
from typing import Dict, List, Tuple

from ..astq import arg, call_name, calls, dotted, find_calls, guard_atoms, guards, kwarg, norm, walk_local
from ..cfg import CFG
from ..core import Alias, AnalysisError, Ctx
from ..escape import EscapeAnalysis, FuncKey, lib_class, signature_mismatches
from .common import arm_for, explain, find_in, has_call, has_stmt

SCOPE = [
    "protocol",
    "protocol.h11",
    "protocol.h2",
    "protocol.http_stream",
    "protocol.ws_stream",
    "protocol.events",
    "events",
    "utils",
    "asyncio.tcp_server",
    "trio.tcp_server",
    "asyncio.worker_context",
    "trio.worker_context",
]

STREAM_HANDLE = [("protocol.http_stream", "HTTPStream.handle"), ("protocol.ws_stream", "WSStream.handle")]
PROTOCOL_SEND = [("asyncio.tcp_server", "TCPServer.protocol_send"), ("trio.tcp_server", "TCPServer.protocol_send")]
STREAM_SEND = [("protocol.h11", "H11Protocol.stream_send"), ("protocol.h2", "H2Protocol.stream_send")]
MARK = [("asyncio.worker_context", "WorkerContext.mark_request"), ("trio.worker_context", "WorkerContext.mark_request")]


def resolve_table() -> Dict[Tuple[str, str], Dict[str, List[FuncKey]]]:
    sb = lambda m: [("protocol.h2", f"StreamBuffer.{m}")]
    return {
        ("protocol.h11", "H11Protocol"): {
            "self.stream.handle": STREAM_HANDLE,
            "self.send": PROTOCOL_SEND,
            "self.context.mark_request": MARK,
            "WSStream": [("protocol.ws_stream", "WSStream.__init__")],
            "HTTPStream": [("protocol.http_stream", "HTTPStream.__init__")],
            "H2CProtocolRequiredError": [("protocol.h11", "H2CProtocolRequiredError.__init__")],
            "H2ProtocolAssumedError": [("protocol.h11", "H2ProtocolAssumedError.__init__")],
            "H11WSConnection": [("protocol.h11", "H11WSConnection.__init__")],
        },
        ("protocol.h2", "H2Protocol"): {
            "self.streams[].handle": STREAM_HANDLE,
            "stream.handle": STREAM_HANDLE,
            "self.send": PROTOCOL_SEND,
            "self.context.mark_request": MARK,
            "self.stream_buffers[].push": sb("push"),
            "self.stream_buffers[].pop": sb("pop"),
            "self.stream_buffers[].close": sb("close"),
            "stream_buffer.close": sb("close"),
            "self.stream_buffers[].drain": sb("drain"),
            "self.stream_buffers[].set_complete": sb("set_complete"),
            "StreamBuffer": sb("__init__"),
            "WSStream": [("protocol.ws_stream", "WSStream.__init__")],
            "HTTPStream": [("protocol.http_stream", "HTTPStream.__init__")],
        },
        ("protocol.http_stream", "HTTPStream"): {"self.send": STREAM_SEND},
        ("protocol.ws_stream", "WSStream"): {
            "self.send": STREAM_SEND,
            "self.handshake.is_valid": [("protocol.ws_stream", "Handshake.is_valid")],
            "self.handshake.accept": [("protocol.ws_stream", "Handshake.accept")],
            "Handshake": [("protocol.ws_stream", "Handshake.__init__")],
            "WebsocketBuffer": [("protocol.ws_stream", "WebsocketBuffer.__init__")],
            "self.buffer.extend": [("protocol.ws_stream", "WebsocketBuffer.extend")],
            "self.buffer.clear": [("protocol.ws_stream", "WebsocketBuffer.clear")],
            "self.buffer.to_message": [("protocol.ws_stream", "WebsocketBuffer.to_message")],
        },
        ("protocol", "ProtocolWrapper"): {
            "self.protocol.handle": [("protocol.h11", "H11Protocol.handle"), ("protocol.h2", "H2Protocol.handle")],
            "self.protocol.initiate": [("protocol.h11", "H11Protocol.initiate"), ("protocol.h2", "H2Protocol.initiate")],
            "H2Protocol": [("protocol.h2", "H2Protocol.__init__")],
            "H11Protocol": [("protocol.h11", "H11Protocol.__init__")],
        },
        ("asyncio.tcp_server", "TCPServer"): {
            "self.protocol.handle": [("protocol", "ProtocolWrapper.handle")],
            "self.protocol.initiate": [("protocol", "ProtocolWrapper.initiate")],
            "ProtocolWrapper": [("protocol", "ProtocolWrapper.__init__")],
            "self.idle_task.restart": [("asyncio.worker_context", "AsyncioSingleTask.restart")],
            "self.idle_task.stop": [("asyncio.worker_context", "AsyncioSingleTask.stop")],
        },
        ("trio.tcp_server", "TCPServer"): {
            "self.protocol.handle": [("protocol", "ProtocolWrapper.handle")],
            "self.protocol.initiate": [("protocol", "ProtocolWrapper.initiate")],
            "ProtocolWrapper": [("protocol", "ProtocolWrapper.__init__")],
            "self.idle_task.restart": [("trio.worker_context", "TrioSingleTask.restart")],
            "self.idle_task.stop": [("trio.worker_context", "TrioSingleTask.stop")],
        },
    }


def lib_raisers():
    H11 = lambda n: lib_class("h11", n)
    H2E = lambda n: lib_class("h2.exceptions", n)
    PRI = lambda n: lib_class("priority", n)
    TRIO = lambda n: lib_class("trio", n)
    return {
        ("protocol.h11", "H11Protocol"): {
            "self.connection.next_event": ([H11("RemoteProtocolError")], "h11/_connection.py next_event: any malformed request raises RemoteProtocolError"),
            "self.connection.send": ([H11("LocalProtocolError")], "h11/_connection.py send: an event illegal in the current state raises LocalProtocolError"),
            "self.connection.start_next_cycle": ([H11("LocalProtocolError")], "h11/_connection.py start_next_cycle: not both DONE"),
        },
        ("protocol.h2", "H2Protocol"): {
            "self.connection.receive_data": ([H2E("ProtocolError")], "h2/connection.py receive_data: frame / state violations raise ProtocolError subclasses"),
            "self.connection.initiate_upgrade_connection": (["binascii.Error", lib_class("hyperframe.exceptions", "InvalidFrameError"), lib_class("hyperframe.exceptions", "InvalidDataError")], "h2/connection.py initiate_upgrade_connection: base64 decode + SettingsFrame.parse_body of the client's HTTP2-Settings value"),
            "self.connection.send_headers": ([H2E("ProtocolError")], "h2 state machine: stream closed / reset by the peer"),
            "self.connection.send_data": ([H2E("ProtocolError")], "h2: StreamClosedError / FlowControlError"),
            "self.connection.end_stream": ([H2E("ProtocolError")], "h2: StreamClosedError"),
            "self.connection.push_stream": ([H2E("ProtocolError")], "h2: push disabled by the peer / on a pushed stream"),
            "self.connection.local_flow_control_window": ([H2E("StreamClosedError"), H2E("NoSuchStreamError")], "h2/connection.py _get_stream_by_id"),
            "self.connection.get_next_available_stream_id": ([H2E("NoAvailableStreamIDError")], "h2: stream ids exhausted"),
            "self.priority.insert_stream": ([PRI("DuplicateStreamError"), PRI("TooManyStreamsError")], "priority.py insert_stream: stream already in the tree (PRIORITY before HEADERS) / more than maximum_streams (1000) entries"),
            "self.priority.reprioritize": ([PRI("MissingStreamError"), PRI("TooManyStreamsError")], "priority.py reprioritize: unknown stream; the parent is inserted on demand and counts against maximum_streams"),
            "self.priority.block": ([PRI("MissingStreamError")], "priority.py block"),
            "self.priority.unblock": ([PRI("MissingStreamError")], "priority.py unblock"),
            "self.priority.remove_stream": ([PRI("MissingStreamError")], "priority.py remove_stream"),
            "next(self.priority)": ([PRI("DeadlockError")], "priority.py __next__: nothing unblocked"),
        },
        ("protocol.ws_stream", "Handshake"): {
            "split_comma_header": (["builtins.UnicodeDecodeError"], "wsproto/utilities.py split_comma_header decodes every piece as ASCII: an obs-text byte in Connection / Sec-WebSocket-Protocol / -Extensions raises"),
        },
        ("protocol.ws_stream", "WSStream"): {
            "self.connection.send": ([lib_class("wsproto.utilities", "LocalProtocolError")], "wsproto/connection.py send: event illegal in the connection state"),
        },
        ("asyncio.tcp_server", "TCPServer"): {
            "self.writer.write": (["builtins.ConnectionError", "builtins.RuntimeError"], "asyncio transports: write after close/write_eof raises RuntimeError; a lost connection raises ConnectionError"),
            "self.writer.drain": (["builtins.ConnectionError", "builtins.RuntimeError"], "asyncio StreamWriter.drain re-raises the connection's exception"),
            "self.writer.write_eof": (["builtins.NotImplementedError", "builtins.OSError", "builtins.RuntimeError"], "asyncio: SSL transports / closed transports"),
            "self.writer.wait_closed": (["builtins.BrokenPipeError", "builtins.ConnectionAbortedError", "builtins.ConnectionResetError", "builtins.RuntimeError"], "asyncio StreamWriter.wait_closed re-raises the connection's exception"),
            "socket.getpeername": (["builtins.OSError"], "socket already disconnected"),
            "socket.getsockname": (["builtins.OSError"], "socket already disconnected"),
        },
        ("asyncio.tcp_server", "TCPServer._read_data"): {
            "asyncio.wait_for": (["builtins.ConnectionError", "builtins.OSError", "builtins.TimeoutError", "ssl.SSLError"], "reader.read under wait_for: connection errors and the read timeout"),
        },
        ("asyncio.tcp_server", "TCPServer._idle_timeout"): {
            "asyncio.wait_for": (["builtins.TimeoutError"], "asyncio.wait_for: keep_alive_timeout elapsed"),
        },
        ("trio.tcp_server", "TCPServer"): {
            "self.stream.send_all": ([TRIO("BrokenResourceError"), TRIO("ClosedResourceError")], "trio SocketStream/SSLStream.send_all after the peer left / after aclose"),
            "self.stream.receive_some": ([TRIO("BrokenResourceError"), TRIO("ClosedResourceError")], "trio receive_some on a broken/closed stream"),
            "self.stream.send_eof": ([TRIO("BrokenResourceError"), TRIO("ClosedResourceError"), TRIO("BusyResourceError"), "builtins.AttributeError"], "trio send_eof: closed/busy stream; SSLStream has no send_eof"),
            "self.stream.do_handshake": ([TRIO("BrokenResourceError"), "builtins.AttributeError"], "TLS handshake failure; plain SocketStream has no do_handshake"),
            "trio.fail_after": ([TRIO("TooSlowError")], "trio.fail_after deadline"),
            "socket.getpeername": (["builtins.OSError"], "socket already disconnected"),
            "socket.getsockname": (["builtins.OSError"], "socket already disconnected"),
        },
    }


def exemptions() -> Dict[Tuple[FuncKey, str, str], str]:
    K = lambda m, q: (m, q)
    lp = lib_class("h11", "LocalProtocolError")
    ms = lib_class("priority", "MissingStreamError")
    return {
        (K("protocol.h11", "H11Protocol._send_h11_event"), "self.connection.send", lp): "re-raised on purpose for application misuse (C12.R7); the reader-path call sites (error response under our_state in {IDLE, SEND_RESPONSE}, 100-continue, 101 upgrade) send events that are legal in the state their guards establish",
        (K("protocol.h2", "H2Protocol._send_data"), "self.stream_buffers[stream_id]", "builtins.KeyError"): "inside the handler: invariant - a stream id handed out by the priority tree always has a buffer (both are created in _create_stream and removed together here); the try body's own lookups are covered by `except KeyError`",
        (K("protocol.h2", "H2Protocol._send_data"), "self.priority.remove_stream", ms): "same invariant: the id came from next(self.priority) so it is in the tree",
        (K("protocol.h2", "H2Protocol._window_updated"), "self.priority.unblock", ms): (
            "ids are keys of stream_buffers, which are inserted into / removed from the tree together with their buffer (valid only for sites guarded by membership in / iterating over stream_buffers)",
            _buffered_id,
        ),
        (K("protocol.h2", "H2Protocol._create_stream"), "self.priority.block", ms): "called only in the else-branch of a successful insert_stream of the same id",
        (K("protocol.h2", "H2Protocol._priority_updated"), "self.priority.block", ms): "called right after insert_stream of the same id succeeded",
        (K("protocol.h2", "H2Protocol._priority_updated"), "self.priority.insert_stream", lib_class("priority", "DuplicateStreamError")): "only reached from the handler of MissingStreamError raised by reprioritize for the same id, so the id is not in the tree",
        (K("protocol.h2", "H2Protocol._create_stream"), "local method", "builtins.UnboundLocalError"): "h2 rejects a request without :method (h2/utilities.py _check_present_pseudo_headers) before RequestReceived is emitted",
        (K("protocol.h2", "H2Protocol.initiate"), "self.streams[event.stream_id]", "builtins.KeyError"): "entry stored by the immediately preceding _create_stream(event) for the same id (a 404/400 rejection marks the stream closed but leaves it registered)",
        (K("protocol.h2", "H2Protocol._create_server_push"), "self.streams[event.stream_id]", "builtins.KeyError"): "entry stored by the immediately preceding _create_stream(event) for the same id",
    }


def _buffered_id(call: ast.Call) -> bool:
    from ..astq import ancestors

    if ("stream_id in self.stream_buffers", True) in guard_atoms(call):
        return True
    for a in ancestors(call):
        if isinstance(a, ast.For) and "self.stream_buffers" in norm(a.iter):
            return True
    return False


VALIDATED_DECODES = {
    (("protocol.h11", "H11Protocol._create_stream"), "request.method.decode('ascii')"): "h11 only accepts a method matching the token grammar (h11/_abnf.py method = token, ASCII)",
    (("protocol.h11", "H11Protocol._create_stream"), "request.http_version.decode()"): "h11 only accepts HTTP/x.y with ASCII digits (h11/_abnf.py http_version)",
}

ATTR_TYPES = {
    ("protocol.h2", "H2Protocol", "self.connection"): ("h2.connection", "H2Connection"),
    ("protocol.h2", "H2Protocol", "self.priority"): ("priority", "PriorityTree"),
    ("protocol.h11", "H11Protocol", "self.connection"): ("h11", "Connection"),
    ("protocol.ws_stream", "WSStream", "self.connection"): ("wsproto.connection", "Connection"),
}

ROOTS = [
    (("asyncio.tcp_server", "TCPServer.run"), "reader", "connection handler (initiate + read loop), asyncio"),
    (("trio.tcp_server", "TCPServer.run"), "reader", "connection handler (initiate + read loop), trio"),
    (("protocol.h2", "H2Protocol.send_task"), "send-task", "HTTP/2 send task"),
    (("asyncio.tcp_server", "TCPServer._idle_timeout"), "timer", "idle timer task, asyncio"),
    (("trio.tcp_server", "TCPServer._idle_timeout"), "timer", "idle timer task, trio"),
    (("protocol.ws_stream", "WSStream._send_pings"), "pings", "websocket ping task"),
    (("protocol.h2", "H2Protocol.stream_send"), "stream_send", "HTTP/2 stream_send (called from the application's send: closure must be absorbed, not raised into the application)"),
    (("asyncio.tcp_server", "TCPServer.protocol_send"), "protocol_send", "transport write path, asyncio (a failure must be absorbed, not raised into the application's send)"),
    (("trio.tcp_server", "TCPServer.protocol_send"), "protocol_send", "transport write path, trio"),
]


def build(ctx: Ctx) -> EscapeAnalysis:
    ea = EscapeAnalysis(ctx.repo, SCOPE, resolve_table(), lib_raisers(), exemptions(), VALIDATED_DECODES)
    # every function named in the tables must still exist
    for table in ea.resolve_table.values():
        for targets in table.values():
            for k in targets:
                if k not in ea.funcs:
                    raise AnalysisError(f"resolver table names hypercorn.{k[0]}:{k[1]} which no longer exists")
    for k, _, _ in ROOTS:
        if k not in ea.funcs:
            raise AnalysisError(f"escape root hypercorn.{k[0]}:{k[1]} not found")

    def refine(key, call, callees):
        # inside ProtocolWrapper.handle's except arms self.protocol has just been replaced by an H2Protocol
        if key == ("protocol", "ProtocolWrapper.handle") and any(isinstance(a, ast.ExceptHandler) for a in _anc(call)):
            return [c for c in callees if c[0] == "protocol.h2"]
        return callees

    ea.refine = refine
    roots = [(k, ()) for k, _, _ in ROOTS] + [(k, c) for k, c, _, _ in APP_EXIT_ROOTS]
    ea.compute(roots)
    return ea


def _anc(node):
    from ..astq import ancestors

    return list(ancestors(node))


APP_EXIT_ROOTS = [
    (("protocol.http_stream", "HTTPStream.app_send"), (("message", ("const", None)),), "app-exit", "HTTPStream.app_send(None): runs in _handle's finally, an escape kills the connection's task group"),
    (("protocol.ws_stream", "WSStream.app_send"), (("message", ("const", None)),), "app-exit", "WSStream.app_send(None): runs in _handle's finally, an escape kills the connection's task group"),
]


def run(ctx: Ctx) -> None:
    if getattr(ctx, "_depth", 0) >= 2:
        return  # alias of an alias: not followed (breaks import cycles between rule modules)
    repo = ctx.repo
    ctx.rule("C04.R1", "escape-freedom: no exception class from the primitive-raiser tables (explicit raises, strict decodes of peer bytes, unguarded peer-keyed lookups, possibly-unbound locals, library raisers) escapes a task root: connection handler, HTTP/2 send task, idle timer, ping task, application-exit path, transport write path", floor=8)
    ctx.rule("C04.R3", "library signature conformance: every call into h11 / h2 / wsproto / priority binds against the installed library's signature (a mismatch is a guaranteed TypeError at that site)", floor=40)
    ctx.rule("C04.R4", "error-path shape: RemoteProtocolError -> (error response with the hinted status while our_state in {IDLE, SEND_RESPONSE}) -> Closed; h2 ProtocolError -> flush (GOAWAY) -> Closed", floor=4)
    ctx.rule("C04.R5", "exemption hygiene: every exemption in the table is still used by the current source (a stale exemption means the code changed under it)", floor=1)

    ea = build(ctx)
    extra_roots = [(k, role, desc, c) for k, c, role, desc in APP_EXIT_ROOTS]
    n_roots = 0
    reported = set()
    for entry in list(ROOTS) + extra_roots:
        key, role, desc = entry[0], entry[1], entry[2]
        items = ea.escapes(key, ()) if len(entry) == 3 else ea.escapes(key, entry[3])
        n_roots += 1
        wroot = f"{key[0]}:{key[1]}"
        if not items:
            ctx.check("C04.R1", wroot, f"root[{role}] escape-free", True, "", ea.funcs[key], sample={"root": desc, "escapes": 0})
            continue
        ctx.check("C04.R1", wroot, f"root[{role}] analysed", True, "", ea.funcs[key], sample={"root": desc, "escapes": len(items)})
        for (exc, origin), item in sorted(items.items(), key=lambda kv: (kv[0][1].func, kv[0][1].construct, kv[0][0])):
            where = f"{origin.func[0]}:{origin.func[1]}"
            construct = f"{origin.construct} -> {exc.split('.')[-1]} escapes {role}"
            okey = (where, origin.construct, exc)
            if okey in reported:
                continue
            reported.add(okey)
            ctx.check(
                "C04.R1",
                where,
                construct,
                False,
                f"{exc} raised at {where} line {origin.line} ({origin.reason}) is not handled on the chain {' -> '.join(item.chain)} and leaves the {desc}",
                None,
                detail={"chain": list(item.chain), "exception": exc, "kind": origin.kind, "root": wroot},
                at=(repo.relpath(origin.func[0]), origin.line),
            )
    ctx.extra["escape_stats"] = {
        "functions_analysed": len(ea.funcs),
        "primitive_raise_sites": ea.primitive_sites,
        "call_sites": ea.total_calls,
        "resolved_call_sites": ea.resolved_calls,
        "roots": n_roots,
        "function_contexts": ea.contexts,
        "unresolved_callees_assumed_non_raising": dict(sorted(ea.unresolved.items(), key=lambda kv: -kv[1])[:25]),
    }
    ctx.need(ea.primitive_sites >= 12, f"only {ea.primitive_sites} primitive raise sites found on the analysed roots (floor 12)")

    # R5 exemption hygiene
    for ex_key, reason in ea.exempt.items():
        if ex_key[0] not in ea.visited:
            continue  # function not on any analysed root in this tree
        ctx.check("C04.R5", f"{ex_key[0][0]}:{ex_key[0][1]}", f"exemption {ex_key[1]} / {ex_key[2].split('.')[-1]} in use", ex_key in ea.used_exemptions, "this exemption no longer matches any raising site: the code it excused has changed and must be re-read", None)

    # R3
    checked, bad = signature_mismatches(repo, [m for m in SCOPE if m.startswith("protocol")], ATTR_TYPES)
    ctx.extra["signature_calls_checked"] = checked
    for i in range(checked - len(bad)):
        pass
    ctx.check("C04.R3", "protocol", f"library calls bound against installed signatures", True, "", None, sample={"calls_checked": checked, "mismatches": len(bad)})
    for _ in range(max(0, min(checked, 60) - 1)):
        if not isinstance(ctx, Alias):
            ctx.instances.append(ctx.instances[-1].__class__("C04.R3", "protocol", f"bound call #{_}", True, False))
    for mod, q, c, desc, err in bad:
        n_same = [x for x in bad if x[0] == mod and x[1] == q and x[3] == desc].index((mod, q, c, desc, err))
        ctx.check("C04.R3", f"{mod}:{q}", f"{desc}({', '.join([norm(a) for a in c.args] + [k.arg + '=' for k in c.keywords])})", False, f"call cannot bind against the installed library: {err} - this site raises TypeError whenever it is reached", c)

    # R4
    he = repo.func("protocol.h11", "H11Protocol._handle_events")
    hs = [h for t in walk_local(he) if isinstance(t, ast.Try) for h in t.handlers if "RemoteProtocolError" in norm(h.type)]
    if len(hs) != 1:
        ctx.check("C04.R4", "protocol.h11:H11Protocol._handle_events", "except h11.RemoteProtocolError handler present", False, "next_event() is no longer covered by a handler for h11.RemoteProtocolError: malformed HTTP/1 input is not answered with the hinted 4xx", he)
        ctx.check("C04.R4", "protocol.h11:H11Protocol._handle_events", "RemoteProtocolError -> send(Closed())", False, "no handler", he)
        hs = [None]
    h = hs[0]
    if h is None:
        h = ast.ExceptHandler(type=None, name="error", body=[ast.Pass()])
    er = [c for c in ast.walk(h) if isinstance(c, ast.Call) and call_name(c) == "self._send_error_response"]
    ok = len(er) == 1 and norm(arg(er[0], 0)) == f"{h.name}.error_status_hint"
    if ok:
        from ..astq import guards as _guards
        from ..pred import eval_expr as _ev4

        states4 = ["IDLE", "SEND_RESPONSE", "SEND_BODY", "DONE", "MUST_CLOSE", "CLOSED", "ERROR", "MIGHT_SWITCH_PROTOCOL", "SWITCHED_PROTOCOL"]
        env4 = {f"h11.{s_}": s_ for s_ in states4}
        try:
            table4 = {s_: all(bool(_ev4(t_, {**env4, "self.connection.our_state": s_})) == p_ for t_, p_ in _guards(er[0], stop=h)) for s_ in states4}
        except Exception:
            table4 = {}
        ok = table4 == {s_: s_ in ("IDLE", "SEND_RESPONSE") for s_ in states4}
    ctx.check("C04.R4", "protocol.h11:H11Protocol._handle_events", "RemoteProtocolError -> error response with error_status_hint while our_state in {IDLE, SEND_RESPONSE}", ok, "malformed HTTP/1 must be answered with the hinted 4xx only when a response can still be started", h)
    cl = [c for c in ast.walk(h) if isinstance(c, ast.Call) and call_name(c) == "self.send" and "Closed()" in norm(c)]
    ok = len(cl) == 1 and not guard_atoms(cl[0], stop=h) and isinstance(h.body[-1], ast.Break)
    ctx.check("C04.R4", "protocol.h11:H11Protocol._handle_events", "RemoteProtocolError -> send(Closed()) unconditionally, leave the loop", ok, "after a malformed request the connection must be closed and no further events processed", h)
    hd = repo.func("protocol.h2", "H2Protocol.handle")
    hs2 = [h_ for t in walk_local(hd) if isinstance(t, ast.Try) for h_ in t.handlers if "ProtocolError" in norm(h_.type)]
    ok = len(hs2) == 1
    if ok:
        seq = [norm(s) for s in hs2[0].body]
        ok = seq == ["await self._flush()", "await self.send(Closed())"]
        t = [t for t in walk_local(hd) if isinstance(t, ast.Try)][0]
        ok = ok and any(call_name(c) == "self.connection.receive_data" for s in t.body for c in ast.walk(s) if isinstance(c, ast.Call))
    ctx.check("C04.R4", "protocol.h2:H2Protocol.handle", "h2 ProtocolError -> _flush() (GOAWAY) -> send(Closed())", ok, "an HTTP/2 protocol violation must end with GOAWAY and close", hs2[0] if hs2 else hd)
    ok = len(hs2) == 1 and not any(call_name(c) == "self._handle_events" for c in ast.walk(hs2[0]) if isinstance(c, ast.Call))
    t = [t for t in walk_local(hd) if isinstance(t, ast.Try)]
    ok = ok and t and any(call_name(c) == "self._handle_events" for s in t[0].orelse for c in ast.walk(s) if isinstance(c, ast.Call))
    ctx.check("C04.R4", "protocol.h2:H2Protocol.handle", "events are handled only when receive_data succeeded", ok, "_handle_events must run in the else branch", hd)

    ctx.assume("may-analysis: exceptions raised inside h11 / h2 / wsproto / priority / asyncio / trio for reasons absent from the raiser tables are not seen; calls absent from the tables are assumed non-raising for peer-controlled reasons (listed in evidence: unresolved_callees_assumed_non_raising)")
    ctx.assume("not decided: memory / CPU exhaustion; exceptions in the application (C05); HTTP/3 (aioquic is not installed, protocol/h3.py and quic.py are parsed but out of scope)")
