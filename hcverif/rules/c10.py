"""C10 — WebSocket message fidelity and size limit (structural clauses)."""
from __future__ import annotations

import ast

from ..astq import ancestors, arg, call_name, calls, dotted, find_calls, guard_atoms, guards, kwarg, norm, provenance, walk_local
from ..cfg import CFG
from ..core import Ctx
from ..pred import _Raised, Unknown, eval_expr
from .common import arm_for, explain, find_in, has_call, has_stmt

M = "protocol.ws_stream"


def run(ctx: Ctx) -> None:
    if getattr(ctx, "_depth", 0) >= 2:
        return  # alias of an alias: not followed (breaks import cycles between rule modules)
    repo = ctx.repo
    ctx.rule("C10.R1", "a finished message is delivered once (put(buffer.to_message())) and the buffer cleared before anything else is accumulated; unfinished fragments only accumulate", floor=3)
    ctx.rule("C10.R2", "overflow: FrameTooLargeError -> CloseConnection(MESSAGE_TOO_BIG), leave the event loop, deliver nothing; the buffer stays over its limit (later fragments overflow again) unless the stream is marked closed", floor=4)
    ctx.rule("C10.R3", "the limit: extend() raises iff accumulated length > max_length, where length accumulates write()'s return", floor=3)
    ctx.rule("C10.R4", "type preservation: StringIO iff TextMessage else BytesIO; to_message puts the value under text / bytes accordingly", floor=3)
    ctx.rule("C10.R5", "every Ping is answered with event.response(); CloseConnection is answered while REMOTE_CLOSING and ends the stream", floor=2)
    ctx.rule("C10.R6", "websocket.send: bytes (any non-None value, including empty) -> BytesMessage(bytes(message['bytes'])), else str text -> TextMessage(message['text'])", floor=4)
    ctx.rule("C10.R7", "received bytes reach wsproto unmodified (connection.receive_data(event.data)) and every wsproto event of the batch is visited in order", floor=3)

    he = repo.func(M, "WSStream._handle_events")
    w = f"{M}:WSStream._handle_events"
    g = CFG(he)
    loops = [n for n in walk_local(he) if isinstance(n, ast.For)]
    ok = len(loops) == 1 and norm(loops[0].iter) == "self.connection.events()"
    ctx.check("C10.R7", w, "for event in connection.events() - consumed lazily, one event at a time", ok, "wsproto's events() is a generator that parses as it goes and updates the connection state frame by frame: materialising it (list(...)) lets a Close frame in the same read flip the state before the Pong for an earlier Ping is built, and the Pong is refused", loops[0] if loops else he)
    marm = arm_for(he, "event", "Message")
    ctx.need(marm is not None, "_handle_events: no Message arm")
    puts = find_in(marm.body, "self.app_put")
    ok = len(puts) == 1 and norm(arg(puts[0], 0)) == "self.buffer.to_message()" and ("event.message_finished", True) in guard_atoms(puts[0], stop=marm)
    ctx.check("C10.R1", w, "message_finished -> app_put(buffer.to_message())", ok, "a completed message must be delivered from the accumulated buffer, and only when finished", puts[0] if puts else marm)
    exts = find_in(marm.body, "self.buffer.extend")
    ok = len(exts) == 1 and norm(arg(exts[0], 0)) == "event" and not [a for a in guard_atoms(exts[0], stop=marm) if "isinstance(event" not in a[0]]
    ctx.check("C10.R1", w, "every Message event (also an empty one) is accumulated: buffer.extend(event) unconditionally", ok, "extend() is what creates the text/bytes buffer: skipping it for some fragments (e.g. empty ones) delivers a zero-length message as {'text': None, 'bytes': None}", exts[0] if exts else marm)
    pn = g.where(has_call("self.app_put"))
    ok = bool(pn) and g.must_pass(pn[0], [n.id for n in g.nodes if n.kind == "iter"] + [g.exit], has_call("self.buffer.clear"), skip_labels=("exc", "uncaught")) is None
    ctx.check("C10.R1", w, "put -> buffer.clear() before the next event", ok, "the buffer must be cleared after delivery or the next message is appended to the previous one", marm)
    clears = find_calls(he, "self.buffer.clear")
    ok = all(("event.message_finished", True) in guard_atoms(c) for c in clears if not _in_handler(c))
    ctx.check("C10.R1", w, "buffer cleared only after a finished message", ok and len([c for c in clears if not _in_handler(c)]) == 1, "clearing the buffer between fragments loses the earlier fragments", he)

    # R2
    trys = [n for n in ast.walk(marm) if isinstance(n, ast.Try)]
    hs = [h for t in trys for h in t.handlers if "FrameTooLargeError" in norm(h.type)]
    ctx.need(len(hs) == 1, "no except FrameTooLargeError handler in the Message arm")
    h = hs[0]
    hc = [c for s in h.body for c in ast.walk(s) if isinstance(c, ast.Call)]
    close = [c for c in hc if call_name(c) == "CloseConnection"]
    ok = len(close) == 1 and norm(kwarg(close[0], "code")) == "CloseReason.MESSAGE_TOO_BIG" and any(call_name(c) == "self._send_wsproto_event" for c in hc)
    ctx.check("C10.R2", w, "overflow -> CloseConnection(code=MESSAGE_TOO_BIG)", ok, "an oversized message must be answered with close code 1009", h)
    ok = isinstance(h.body[-1], ast.Break) or isinstance(h.body[-1], ast.Return)
    ctx.check("C10.R2", w, "overflow leaves the event loop", ok, "after an oversized message nothing further from this read may be processed", h)
    ok = not any(call_name(c) == "self.app_put" for c in hc)
    # no path from the handler to a put within this call
    hn = [n.id for n in g.nodes if n.kind == "handler" and n.ast is h]
    ok = ok and bool(hn) and not any(has_call("self.app_put")(g.node(n)) for n in g.reach(hn))
    ctx.check("C10.R2", w, "nothing is delivered after the overflow", ok, "a message (or a piece of it) is delivered after the size limit was exceeded", h)
    cleared = any(call_name(c) == "self.buffer.clear" for c in hc)
    closed = any(isinstance(s, ast.Assign) and dotted(s.targets[0]) == "self.closed" and norm(s.value) == "True" for s in h.body)
    ctx.check("C10.R2", w, "overflow is latched (buffer stays over the limit, or the stream is closed)", (not cleared) or closed, "clearing the buffer in the overflow handler lets frames from later reads be delivered after 1009 was sent (including the tail of the oversized message)", h)

    # R3 / R4: the reassembly buffer is interpreted on small scenarios (the evaluator's own
    # io.StringIO / io.BytesIO stand for the library objects)
    import io as _io

    from ..pred import Rec, eval_function as _evf

    ex = repo.func(M, "WebsocketBuffer.extend")
    we = f"{M}:WebsocketBuffer.extend"
    bi = repo.func(M, "WebsocketBuffer.__init__")
    tm = repo.func(M, "WebsocketBuffer.to_message")
    cl = repo.func(M, "WebsocketBuffer.clear")

    def _isinst(obj, cls):
        names = cls if isinstance(cls, tuple) else (cls,)
        for c_ in names:
            if isinstance(c_, str):
                if isinstance(obj, Rec) and (obj.fields.get("kind") == c_ or c_ == "Message"):
                    return True
            elif isinstance(obj, c_):
                return True
        return False

    base_env = {"call:isinstance": _isinst, "call:StringIO": _io.StringIO, "call:BytesIO": _io.BytesIO, "StringIO": _io.StringIO, "BytesIO": _io.BytesIO, "TextMessage": "TextMessage", "BytesMessage": "BytesMessage", "Message": "Message"}
    T = lambda d_: Rec(kind="TextMessage", data=d_)  # noqa: E731
    B = lambda d_: Rec(kind="BytesMessage", data=d_)  # noqa: E731
    scenarios = [
        ("two text fragments are concatenated and delivered as text", 5, [("extend", T("ab")), ("extend", T("c")), ("to_message", {"type": "websocket.receive", "bytes": None, "text": "abc"}), ("clear", None), ("state", (None, 0))]),
        ("binary stays binary", 5, [("extend", B(b"xy")), ("to_message", {"type": "websocket.receive", "bytes": b"xy", "text": None})]),
        ("a message of exactly max size is accepted, one more unit is refused", 2, [("extend", T("ab")), ("extend!", T("c"))]),
        ("the limit counts characters for text (3 non-ASCII characters within a limit of 3)", 3, [("extend", T("\xe4\xf6\xfc")), ("to_message", {"type": "websocket.receive", "bytes": None, "text": "\xe4\xf6\xfc"})]),
        ("the limit counts bytes for binary", 3, [("extend", B(b"abc")), ("extend!", B(b"d"))]),
        ("an empty message is still a message of its type", 0, [("extend", T("")), ("to_message", {"type": "websocket.receive", "bytes": None, "text": ""})]),
        ("the type is chosen per message (text, clear, binary)", 9, [("extend", T("a")), ("clear", None), ("extend", B(b"b")), ("to_message", {"type": "websocket.receive", "bytes": b"b", "text": None})]),
        ("sizes accumulate over fragments", 3, [("extend", B(b"ab")), ("extend!", B(b"cd"))]),
        ("the limit is latched: once a fragment was refused every later fragment of the read is refused too", 3, [("extend", B(b"ab")), ("extend!", B(b"cd")), ("extend!", B(b"e"))]),
    ]
    for title, mx, steps in scenarios:
        why = ""
        try:
            st_ = _evf(bi, {**base_env, bi.args.args[1].arg: mx}, want_env=True)
            state = {k_: v_ for k_, v_ in st_.items() if k_.startswith("self.")}
            for op, arg_ in steps:
                if op in ("extend", "extend!"):
                    try:
                        out_ = _evf(ex, {**base_env, **state, ex.args.args[1].arg: arg_}, want_env=True)
                        raised = False
                    except _Raised as r_:
                        raised = "FrameTooLargeError" in str(r_)
                        if not raised:
                            raise
                        out_ = getattr(r_, "env", {})
                    if raised != (op == "extend!"):
                        why = f"extend({arg_}) {'raised' if raised else 'did not raise'} FrameTooLargeError"
                        break
                    state.update({k_: v_ for k_, v_ in out_.items() if k_.startswith("self.")})
                elif op == "to_message":
                    got_ = _evf(tm, {**base_env, **state})
                    if got_ != arg_:
                        why = f"to_message() gives {got_}, expected {arg_}"
                        break
                elif op == "clear":
                    out_ = _evf(cl, {**base_env, **state}, want_env=True)
                    state.update({k_: v_ for k_, v_ in out_.items() if k_.startswith("self.")})
                elif op == "state":
                    if (state.get("self.value"), state.get("self.length")) != arg_:
                        why = f"after clear(): value={state.get('self.value')!r} length={state.get('self.length')!r}"
                        break
        except Exception as error:
            why = f"not evaluable: {type(error).__name__}: {error}"
        rid = "C10.R3" if "limit" in title or "max size" in title or "accumulate" in title or "latched" in title else "C10.R4"
        ctx.check(rid, f"{M}:WebsocketBuffer", title, not why, why, ex)
    wsi = repo.func(M, "WSStream.__init__")
    ok = any(isinstance(n, ast.Assign) and dotted(n.targets[0]) == "self.buffer" and call_name(n.value) == "WebsocketBuffer" for n in walk_local(wsi) if isinstance(getattr(n, "value", None), ast.Call))
    ctx.check("C10.R4", f"{M}:WSStream.__init__", "one WebsocketBuffer per stream", ok, "each stream needs its own reassembly buffer", wsi)

    # R5
    parm = arm_for(he, "event", "Ping")
    ok = parm is not None
    if ok:
        cs = find_in(parm.body, "self._send_wsproto_event")
        ok = len(cs) == 1 and norm(arg(cs[0], 0)) == "event.response()" and not (guard_atoms(cs[0], stop=parm) - {(norm(parm.test), True)})
    ctx.check("C10.R5", w, "Ping -> send(event.response())", ok, "every ping must be answered with a pong carrying its payload", parm or he)
    carm = arm_for(he, "event", "CloseConnection")
    ok = carm is not None
    if ok:
        cs = find_in(carm.body, "self._send_wsproto_event")
        sc = [c for c in find_in(carm.body, "self.send") if "StreamClosed" in norm(c)]
        ok = len(cs) == 1 and norm(arg(cs[0], 0)) == "event.response()" and ("self.connection.state == ConnectionState.REMOTE_CLOSING", True) in guard_atoms(cs[0]) and len(sc) == 1
    ctx.check("C10.R5", w, "CloseConnection -> response while REMOTE_CLOSING, then StreamClosed", ok, "a client close must be acknowledged and end the stream", carm or he)

    # R6
    aps = repo.func(M, "WSStream.app_send")
    wa = f"{M}:WSStream.app_send"
    bm = [c for c in calls(aps) if call_name(c) == "BytesMessage"]
    tm_ = [c for c in calls(aps) if call_name(c) == "TextMessage"]
    ok = len(bm) == 1 and norm(kwarg(bm[0], "data")) == "bytes(message['bytes'])"
    if ok:
        # the guard must accept every non-None bytes value, including b""
        gs = [(t, p) for t, p in guards(bm[0]) if "bytes" in norm(t)]
        ok = len(gs) == 1
        for val, want in ((b"", True), (b"x", True), (None, False)):
            got = _eval_get(gs[0][0], gs[0][1], "bytes", val) if ok else None
            if got != want:
                ok = False
    ctx.check("C10.R6", wa, "bytes is not None (empty included) -> BytesMessage(bytes(message['bytes']))", ok, "an empty binary message is falsy: testing truthiness instead of `is not None` routes it to the text branch (TypeError/KeyError in the application, nothing sent)", bm[0] if bm else aps)
    ok = len(tm_) == 1 and norm(kwarg(tm_[0], "data")) == "message['text']"
    ctx.check("C10.R6", wa, "text -> TextMessage(message['text'])", ok, "text payload must be sent unmodified as a text frame", tm_[0] if tm_ else aps)
    rs = [n for n in walk_local(aps) if isinstance(n, ast.Raise) and "TypeError" in norm(n)]
    ok = len(rs) == 1 and ("isinstance(message['text'], str)", False) in guard_atoms(rs[0])
    ctx.check("C10.R6", wa, "non-str text raises TypeError", ok, "a non-str text payload must be rejected (wsproto would send it as a binary frame)", rs[0] if rs else aps)
    built = set()
    for c_ in bm + tm_:
        par = getattr(c_, "_parent", None)
        if isinstance(par, ast.Assign) and len(par.targets) == 1:
            built.add(dotted(par.targets[0]))
        elif isinstance(par, ast.AnnAssign):
            built.add(dotted(par.target))
        else:
            built.add(None)
    sw = [c for c in find_calls(aps, "self._send_wsproto_event") if ("message['type'] == 'websocket.send'", True) in guard_atoms(c) and len(built) == 1 and None not in built and norm(arg(c, 0)) in built]
    ok = len(sw) == 1 and ("message['type'] == 'websocket.send'", True) in guard_atoms(sw[0]) and isinstance(getattr(sw[0], "_parent", None), ast.Await)
    ctx.check("C10.R6", wa, "the built frame is sent", ok, "websocket.send must emit exactly one frame", sw[0] if sw else aps)

    # R7
    hd = repo.func(M, "WSStream.handle")
    rd = find_calls(hd, "self.connection.receive_data")
    hev = find_calls(hd, "self._handle_events")
    ok = len(rd) == 1 and norm(arg(rd[0], 0)) == "event.data" and len(hev) == 1 and rd[0].lineno < hev[0].lineno and guard_atoms(rd[0]) == guard_atoms(hev[0])
    ctx.check("C10.R7", f"{M}:WSStream.handle", "receive_data(event.data) then _handle_events()", ok, "every received byte must be fed to wsproto before its events are processed", rd[0] if rd else hd)
    sw = repo.func(M, "WSStream._send_wsproto_event")
    cs = find_calls(sw, "self.connection.send")
    sd = [c for c in calls(sw) if call_name(c) == "self.send"]
    ok = len(cs) == 1 and norm(arg(cs[0], 0)) == "event" and len(sd) == 1 and "Data(stream_id=self.stream_id, data=data)" in norm(sd[0]) and "send()" in provenance(ast.Name(id="data", ctx=ast.Load()), sw).ops
    ctx.check("C10.R7", f"{M}:WSStream._send_wsproto_event", "send(Data(connection.send(event)))", ok, "serialised frames must be forwarded unmodified", sw)

    from ..core import Alias
    from . import c09, c11, c13

    c11.run(Alias(ctx, "C10.R10", "the extensions the server enables for the connection (permessage-deflate) are exactly the ones it announces in the handshake response, on both carriers (C11.R5)", only={"C11.R5"}))

    c13.run(Alias(ctx, "C10.R8", "HTTP/1.1 carrier: bytes that followed the upgrade request are not lost and every buffered byte is passed through once (C13.R7)", only={"C13.R7"}))
    c09.run(Alias(ctx, "C10.R9", "HTTP/2 carrier: frames are queued in order on the stream's own buffer and the sender is woken before a blocking push (C09.R3/R9)", only={"C09.R3", "C09.R9"}))
    ctx.assume("not decided: fragment reassembly, UTF-8 validation/splitting, permessage-deflate, ping payload echo (all inside wsproto); byte equality")


def _in_handler(node: ast.AST) -> bool:
    return any(isinstance(a, ast.ExceptHandler) for a in ancestors(node))


def _eval_get(test: ast.AST, pol: bool, key: str, value) -> bool:
    """Evaluate a test over message.get('<key>') / message['<key>'] with the given value."""

    class Sub(ast.NodeTransformer):
        def visit_Call(self, n):
            self.generic_visit(n)
            if isinstance(n.func, ast.Attribute) and n.func.attr == "get" and norm(n.func.value) == "message" and n.args and isinstance(n.args[0], ast.Constant) and n.args[0].value == key:
                return ast.Name(id="__v", ctx=ast.Load())
            return n

        def visit_Subscript(self, n):
            self.generic_visit(n)
            if norm(n.value) == "message" and isinstance(n.slice, ast.Constant) and n.slice.value == key:
                return ast.Name(id="__v", ctx=ast.Load())
            return n

    import copy

    t = Sub().visit(copy.deepcopy(test))
    try:
        return bool(eval_expr(t, {"__v": value})) == pol
    except Unknown:
        return None
