"""C01 — request delivery fidelity (structural clauses: provenance of scope and body messages)."""
from __future__ import annotations

import ast
from typing import Dict, Optional

from ..astq import ancestors, arg, call_name, calls, dict_items, dotted, find_calls, guard_atoms, guards, kwarg, norm, provenance, walk_local
from ..cfg import CFG
from ..core import Alias, Ctx
from ..pred import Unknown, eval_expr
from .common import arm_for, explain, find_in, has_call, has_stmt


def _request_ctor(fn: ast.AST) -> Optional[ast.Call]:
    cs = [c for c in calls(fn) if call_name(c) == "Request"]
    return cs[0] if len(cs) == 1 else None


def _scope_dict(fn: ast.AST) -> Optional[ast.Dict]:
    for n in walk_local(fn):
        if isinstance(n, ast.Assign) and dotted(n.targets[0]) == "self.scope" and isinstance(n.value, ast.Dict):
            return n.value
    return None


def run(ctx: Ctx) -> None:
    if getattr(ctx, "_depth", 0) >= 2:
        return  # alias of an alias: not followed (breaks import cycles between rule modules)
    repo = ctx.repo
    ctx.rule("C01.R1", "exactly one application is started per accepted request: one spawn_app call site per stream class, in the Request arm, guarded only by the server-name / handshake checks, with (app, config, scope, app_send)", floor=2)
    ctx.rule("C01.R2", "protocol -> Request event provenance: method, raw_path, http_version, headers, state each derive from the right field of the h11 / h2 request", floor=10)
    ctx.rule("C01.R3", "Request event -> ASGI scope provenance: every scope key derives from its own field (query split at the first b'?', path percent-decoded from the part before it)", floor=22)
    ctx.rule("C01.R4", "body mapping: h11.Data/h2 DataReceived -> Body(data=event.data) -> {http.request, body, more_body=True}; EndOfMessage/StreamEnded -> EndBody -> {http.request, b'', more_body=False}; one put per event", floor=8)
    ctx.rule("C01.R5", "events are delivered sequentially: awaited in the loop body, never spawned", floor=4)
    ctx.rule("C01.R6", "received HTTP/2 DATA is acknowledged so bodies larger than the window complete (same analysis as C09.R7)", floor=1)
    ctx.rule("C01.R7", "filter_pseudo_headers: host first, taken from :authority when present else from host; no pseudo-header kept; order preserved", floor=3)
    ctx.rule("C01.R8", "the application receive queue is bounded by config.max_app_queue_size and FIFO (queue.put / queue.get of one queue)", floor=2)
    ctx.rule("C01.R9", "valid_server_name compares the host header name case-insensitively (raw header names may be mixed case) and accepts everything when no server_names are configured", floor=2)
    ctx.rule("C01.R10", "the parked pipelined reader is released only after the finished stream was torn down and the cycle restarted (same analysis as C06.R3/R4)", floor=1)

    # ---------- R1
    for mod, cls, extra in (("protocol.http_stream", "HTTPStream", set()), ("protocol.ws_stream", "WSStream", set())):
        hd = repo.func(mod, f"{cls}.handle")
        w = f"{mod}:{cls}.handle"
        sites = [c for _, fn in repo.methods(mod, cls).items() for c in calls(fn) if call_name(c) == "self.task_group.spawn_app"]
        ok = len(sites) == 1 and any(sites[0] is c for c in calls(hd))
        if ok:
            c = sites[0]
            ok = [norm(a) for a in c.args] == ["self.app", "self.config", "self.scope", "self.app_send"] and isinstance(getattr(c, "_parent", None), ast.Await)
            ga = guard_atoms(c)
            ok = ok and ("isinstance(event, Request)", True) in ga and ("self.closed", False) in ga and not any(isinstance(a, (ast.For, ast.While)) for a in ancestors(c))
            asg = getattr(getattr(c, "_parent", None), "_parent", None)
            ok = ok and isinstance(asg, ast.Assign) and dotted(asg.targets[0]) == "self.app_put"
        ctx.check("C01.R1", w, "single spawn_app(app, config, scope, app_send) in the Request arm -> self.app_put", ok, f"{len(sites)} spawn_app call sites; the application must be started exactly once per accepted request with the scope just built", sites[0] if sites else hd)

    # ---------- R2  h11
    M11 = "protocol.h11"
    cs11 = repo.func(M11, "H11Protocol._create_stream")
    w11 = f"{M11}:H11Protocol._create_stream"
    rq = _request_ctor(cs11)
    ctx.need(rq is not None, f"{w11}: Request(...) constructor not found")
    want11 = {
        "stream_id": lambda e: norm(e) == "STREAM_ID",
        "http_version": lambda e: norm(e) == "request.http_version.decode()",
        "method": lambda e: norm(e) in ("request.method.decode('ascii').upper()", "request.method.decode().upper()"),
        "raw_path": lambda e: norm(e) == "request.target",
        "state": lambda e: norm(e) == "self.connection_state",
    }
    for k, pred in want11.items():
        v = kwarg(rq, k)
        ctx.check("C01.R2", w11, f"Request.{k}", v is not None and pred(v), f"Request.{k} is built from {norm(v)}", rq)
    hv = kwarg(rq, "headers")
    hdefs = [(norm(n.value), sorted(guard_atoms(n))) for n in walk_local(cs11) if isinstance(n, ast.Assign) and dotted(n.targets[0]) == "headers"]
    from ..astq import expand_locals as _xl

    if isinstance(hv, ast.IfExp):
        hpairs = {norm(hv.body): norm(_xl(hv.test, cs11)), norm(hv.orelse): "not " + norm(_xl(hv.test, cs11))}
    else:
        hpairs = {v_: ("" if g_ and g_[0][1] else "not ") + g_[0][0] for v_, g_ in hdefs if len(g_) == 1} if norm(hv) == "headers" else {}
    ok = hpairs == {"request.headers.raw_items()": "self.config.h11_pass_raw_headers", "list(request.headers)": "not self.config.h11_pass_raw_headers"}
    ctx.check("C01.R2", w11, "Request.headers <- list(request.headers) | raw_items() iff h11_pass_raw_headers", ok, f"headers defined as {hdefs}", rq)
    hcall = [c for c in calls(cs11) if call_name(c) == "self.stream.handle"]
    ok = len(hcall) == 1 and hcall[0].args and hcall[0].args[0] is rq and isinstance(getattr(hcall[0], "_parent", None), ast.Await) and not guard_atoms(hcall[0])
    ctx.check("C01.R2", w11, "the Request event is handed to the new stream", ok, "the request head must reach the stream it created", hcall[0] if hcall else cs11)
    # stream ctor args
    for c in [c for c in calls(cs11) if call_name(c) in ("HTTPStream", "WSStream")]:
        got = [norm(a) for a in c.args]
        want = ["self.app", "self.config", "self.context", "self.task_group", "self.ssl", "self.client", "self.server", "self.stream_send", "STREAM_ID"]
        ctx.check("C01.R2", w11, f"{call_name(c)}(app, config, context, task_group, ssl, client, server, stream_send, STREAM_ID)", got == want, f"constructed with {got}", c)
    # ---------- R2  h2
    M2 = "protocol.h2"
    cs2 = repo.func(M2, "H2Protocol._create_stream")
    w2 = f"{M2}:H2Protocol._create_stream"
    rq2 = _request_ctor(cs2)
    ctx.need(rq2 is not None, f"{w2}: Request(...) constructor not found")
    simple = {"stream_id": "request.stream_id", "http_version": "'2'", "state": "self.connection_state", "headers": "filter_pseudo_headers(request.headers)", "method": "method", "raw_path": "raw_path"}
    for k, wantv in simple.items():
        v = kwarg(rq2, k)
        ctx.check("C01.R2", w2, f"Request.{k}", norm(v) == wantv, f"Request.{k} is built from {norm(v)}", rq2)
    mdefs = [n for n in walk_local(cs2) if isinstance(n, ast.Assign) and dotted(n.targets[0]) == "method"]
    ok = len(mdefs) == 1 and norm(mdefs[0].value) in ("value.decode('ascii').upper()", "value.decode().upper()") and ("name == b':method'", True) in guard_atoms(mdefs[0])
    ctx.check("C01.R2", w2, "method <- :method value, decoded and upper-cased", ok, f"method defined as {[norm(m.value) for m in mdefs]}", mdefs[0] if mdefs else cs2)
    pdefs = [n for n in walk_local(cs2) if isinstance(n, ast.Assign) and dotted(n.targets[0]) == "raw_path" and norm(n.value) != "b''"]
    ok = len(pdefs) == 1 and norm(pdefs[0].value) == "value" and ("name == b':path'", True) in guard_atoms(pdefs[0])
    loop = [a for a in (ancestors(pdefs[0]) if pdefs else []) if isinstance(a, ast.For)]
    ok = ok and len(loop) == 1 and norm(loop[0].iter) == "request.headers" and norm(loop[0].target) == "(name, value)"
    ctx.check("C01.R2", w2, "raw_path <- :path value of request.headers", ok, f"raw_path defined as {[norm(m.value) for m in pdefs]}", pdefs[0] if pdefs else cs2)
    for c in [c for c in calls(cs2) if call_name(c) in ("HTTPStream", "WSStream")]:
        got = [norm(a) for a in c.args]
        want = ["self.app", "self.config", "self.context", "self.task_group", "self.ssl", "self.client", "self.server", "self.stream_send", "request.stream_id"]
        ctx.check("C01.R2", w2, f"{call_name(c)}(..., stream_send, request.stream_id)", got == want, f"constructed with {got}", c)
    stored = {norm(n.value) for n in walk_local(cs2) if isinstance(n, ast.Assign) and norm(n.targets[0]) == "self.streams[request.stream_id]" and isinstance(n.value, ast.Name)}
    hcall = [c for c in calls(cs2) if isinstance(c.func, ast.Attribute) and c.func.attr == "handle" and (norm(c.func.value) == "self.streams[request.stream_id]" or norm(c.func.value) in stored)]
    ok = len(hcall) == 1 and hcall[0].args and hcall[0].args[0] is rq2 and isinstance(getattr(hcall[0], "_parent", None), ast.Await) and not guard_atoms(hcall[0])
    ctx.check("C01.R2", w2, "the Request event is handed to the stream registered under its id", ok, "the request head must reach the stream created for this stream id", hcall[0] if hcall else cs2)

    # ---------- R3
    for mod, cls, scheme_t, scheme_f, typ in (("protocol.http_stream", "HTTPStream", "https", "http", "http"), ("protocol.ws_stream", "WSStream", "wss", "ws", "websocket")):
        hd = repo.func(mod, f"{cls}.handle")
        w = f"{mod}:{cls}.handle"
        sd = _scope_dict(hd)
        ctx.need(sd is not None, f"{w}: scope dict not found")
        items = {norm(k): v for k, v in zip(sd.keys, sd.values)}
        ga = guard_atoms(sd)
        ctx.check("C01.R3", w, "scope built in the Request arm", ("isinstance(event, Request)", True) in ga, "scope must be built from the Request event", sd)
        part = [n for n in walk_local(hd) if isinstance(n, ast.Assign) and isinstance(n.targets[0], ast.Tuple) and norm(n.value) == "event.raw_path.partition(b'?')"]
        ok = len(part) == 1 and [norm(e) for e in part[0].targets[0].elts] == ["path", "_", "query_string"]
        ctx.check("C01.R3", w, "path, _, query_string = event.raw_path.partition(b'?')", ok, "the target must be split at the first '?' into path and query", part[0] if part else hd)
        expect = {
            "'type'": f"'{typ}'",
            "'http_version'": "event.http_version",
            "'scheme'": "self.scheme",
            "'path'": "unquote(path.decode('ascii'))",
            "'raw_path'": "path",
            "'query_string'": "query_string",
            "'root_path'": "self.config.root_path",
            "'headers'": "event.headers",
            "'client'": "self.client",
            "'server'": "self.server",
            "'state'": "event.state",
        }
        if typ == "http":
            expect["'method'"] = "event.method"
        for k, wantv in expect.items():
            got = norm(items.get(k)) if k in items else "<missing>"
            ctx.check("C01.R3", w, f"scope[{k}]", got == wantv, f"scope[{k}] is {got}, expected {wantv}", items.get(k) or sd)
        ini = repo.func(mod, f"{cls}.__init__")
        stores = {dotted(n.targets[0]): norm(n.value) for n in walk_local(ini) if isinstance(n, ast.Assign) and dotted(n.targets[0])}
        sch = {norm(n.value): guard_atoms(n) for n in walk_local(ini) if isinstance(n, ast.Assign) and dotted(n.targets[0]) == "self.scheme"}
        ok = sch == {f"'{scheme_t}'": {("ssl", True)}, f"'{scheme_f}'": {("ssl", False)}} and stores.get("self.client") == "client" and stores.get("self.server") == "server" and stores.get("self.send") == "send" and stores.get("self.stream_id") == "stream_id" and stores.get("self.app") == "app"
        ctx.check("C01.R3", f"{mod}:{cls}.__init__", f"scheme = {scheme_t} if ssl else {scheme_f}; client/server/send/app stored from their parameters", ok, f"stores: { {k: v for k, v in stores.items() if k in ('self.scheme', 'self.client', 'self.server', 'self.send', 'self.stream_id', 'self.app')} }", ini)
        imp = [n for n in repo.module(mod).tree.body if isinstance(n, ast.ImportFrom) and n.module == "urllib.parse" and any(a.name == "unquote" and a.asname is None for a in n.names)]
        ctx.check("C01.R3", w, "unquote is urllib.parse.unquote", len(imp) == 1, "path decoding must use urllib.parse.unquote", None)

    # ---------- R4
    he11 = repo.func(M11, "H11Protocol._handle_events")
    for evname, want in (("h11.Data", "Body(stream_id=STREAM_ID, data=event.data)"), ("h11.EndOfMessage", "EndBody(stream_id=STREAM_ID)")):
        arms = [n for n in walk_local(he11) if isinstance(n, ast.If) and norm(n.test) == f"isinstance(event, {evname})"]
        ok = len(arms) == 1
        if ok:
            hs = [c for c in find_in(arms[0].body, "self.stream.handle")]
            ok = len(hs) == 1 and norm(arg(hs[0], 0)) == want and len(arms[0].body) == 1
        ctx.check("C01.R4", f"{M11}:H11Protocol._handle_events", f"{evname} -> {want}", ok, f"{evname} must be forwarded as {want}, once", arms[0] if arms else he11)
    he2 = repo.func(M2, "H2Protocol._handle_events")
    for evname, want in (("DataReceived", "Body(stream_id=event.stream_id, data=event.data)"), ("StreamEnded", "EndBody(stream_id=event.stream_id)")):
        arm = arm_for(he2, "event", evname)
        ok = arm is not None
        if ok:
            hs = [c for c in find_in(arm.body, "self.streams[].handle")]
            ok = len(hs) == 1 and norm(arg(hs[0], 0)) == want and norm(hs[0].func.value) == "self.streams[event.stream_id]"
        ctx.check("C01.R4", f"{M2}:H2Protocol._handle_events", f"{evname} -> streams[event.stream_id].handle({want})", ok, f"{evname} must be forwarded to its own stream as {want}, once", arm or he2)
    hs_ = repo.func("protocol.http_stream", "HTTPStream.handle")
    wh = "protocol.http_stream:HTTPStream.handle"
    for evname, want in (("Body", "{'type': 'http.request', 'body': bytes(event.data), 'more_body': True}"), ("EndBody", "{'type': 'http.request', 'body': b'', 'more_body': False}")):
        arms = [n for n in walk_local(hs_) if isinstance(n, ast.If) and norm(n.test) == f"isinstance(event, {evname})"]
        ok = len(arms) == 1
        if ok:
            ps = find_in(arms[0].body, "self.app_put")
            ok = len(ps) == 1 and norm(arg(ps[0], 0)) == want and len(arms[0].body) == 1 and isinstance(getattr(ps[0], "_parent", None), ast.Await)
        ctx.check("C01.R4", wh, f"{evname} -> put({want})", ok, f"{evname} must become exactly one http.request message with those fields", arms[0] if arms else hs_)
    # EndBody producers
    eb = [(m, q, c) for m, q, fn in repo.all_functions() if m in ("protocol.h11", "protocol.h2") for c in calls(fn) if call_name(c) == "EndBody" and any(isinstance(a, ast.Call) and isinstance(a.func, ast.Attribute) and a.func.attr == "handle" for a in ancestors(c))]
    okset = {("protocol.h11", "H11Protocol._handle_events"), ("protocol.h2", "H2Protocol._handle_events"), ("protocol.h2", "H2Protocol.initiate"), ("protocol.h2", "H2Protocol._create_server_push")}
    ctx.check("C01.R4", "protocol", "EndBody delivered to a stream only from EndOfMessage / StreamEnded / the two body-less synthesised requests", {(m, q) for m, q, _ in eb} <= okset and len(eb) >= 4, f"EndBody producers: {sorted({(m, q) for m, q, _ in eb})}", None)
    bd = [(m, q) for m, q, fn in repo.all_functions() if m in ("protocol.h11", "protocol.h2") for c in calls(fn) if call_name(c) == "Body" and any(isinstance(a, ast.Call) and isinstance(a.func, ast.Attribute) and a.func.attr == "handle" for a in ancestors(c))]
    ctx.check("C01.R4", "protocol", "Body delivered to a stream only from h11.Data / DataReceived", sorted(bd) == [("protocol.h11", "H11Protocol._handle_events"), ("protocol.h2", "H2Protocol._handle_events")], f"Body producers: {sorted(bd)}", None)

    # ---------- R5
    for mod, q in ((M11, "H11Protocol._handle_events"), (M2, "H2Protocol._handle_events"), ("protocol.http_stream", "HTTPStream.handle"), ("protocol.ws_stream", "WSStream.handle")):
        fn = repo.func(mod, q)
        deliver = [c for c in calls(fn) if (callee := (dotted(c.func) or norm(c.func))) and (callee.endswith(".handle") or callee == "self.app_put")]
        ok = bool(deliver) and all(isinstance(getattr(c, "_parent", None), ast.Await) for c in deliver)
        spawned = [c for c in calls(fn) if (dotted(c.func) or "").endswith((".spawn", ".create_task", ".start_soon")) and any("handle" in norm(a) or "app_put" in norm(a) for a in c.args)]
        ctx.check("C01.R5", f"{mod}:{q}", "deliveries awaited in order, none spawned", ok and not spawned, f"{len(deliver)} delivery sites, {len(spawned)} spawned", fn)

    # ---------- R6
    from . import c09

    c09.run(Alias(ctx, "C01.R6", "received HTTP/2 DATA is acknowledged with its flow-controlled length on every non-exceptional path (C09.R7)", only={"C09.R7"}))

    # ---------- R7
    fp = repo.func("utils", "filter_pseudo_headers")
    wf = "utils:filter_pseudo_headers"
    src = norm(fp)
    from ..pred import eval_function as _evf7

    table7 = [
        ([], [(b"host", b"")]),
        ([(b":method", b"GET"), (b":authority", b"a"), (b":path", b"/"), (b"accept", b"x")], [(b"host", b"a"), (b"accept", b"x")]),
        ([(b"host", b"h"), (b"x", b"1"), (b"y", b"2")], [(b"host", b"h"), (b"x", b"1"), (b"y", b"2")]),
        ([(b":authority", b"a"), (b"host", b"h")], [(b"host", b"a")]),
        ([(b"host", b"h"), (b":authority", b"a")], [(b"host", b"a")]),
        ([(b"y", b"2"), (b"x", b"1"), (b"y", b"3")], [(b"host", b""), (b"y", b"2"), (b"x", b"1"), (b"y", b"3")]),
    ]
    pname = fp.args.args[0].arg if fp.args.args else "headers"
    for inp, want in table7:
        try:
            got = _evf7(fp, {pname: inp})
            got = [tuple(x) for x in got] if isinstance(got, list) else got
        except Exception as error:
            got = f"raises / not evaluable: {error}"
        ctx.check("C01.R7", wf, f"filter_pseudo_headers({inp})", got == want, f"gives {got}, expected {want}: host must come first, taken from :authority when the client sent one (else from host), pseudo-headers dropped, the other headers kept in order", fp)

    # ---------- R8
    a = repo.func("asyncio.task_group", "TaskGroup.spawn_app")
    q = [n for n in walk_local(a) if isinstance(n, (ast.Assign, ast.AnnAssign)) and dotted(n.targets[0] if isinstance(n, ast.Assign) else n.target) == "app_queue"]
    ok = len(q) == 1 and norm(q[0].value) == "asyncio.Queue(config.max_app_queue_size)" and "app_queue.get" in norm(a) and norm([n for n in walk_local(a) if isinstance(n, ast.Return)][0].value) == "app_queue.put"
    ctx.check("C01.R8", "asyncio.task_group:TaskGroup.spawn_app", "asyncio.Queue(config.max_app_queue_size): put returned, get given to the app", ok, "request messages must travel through one bounded FIFO queue", a)
    t = repo.func("trio.task_group", "TaskGroup.spawn_app")
    q = [n for n in walk_local(t) if isinstance(n, ast.Assign) and isinstance(n.targets[0], ast.Tuple) and [norm(e) for e in n.targets[0].elts] == ["app_send_channel", "app_receive_channel"]]
    ok = len(q) == 1 and "open_memory_channel" in norm(q[0].value) and norm(q[0].value.args[0]) == "config.max_app_queue_size" and "app_receive_channel.receive" in norm(t) and norm([n for n in walk_local(t) if isinstance(n, ast.Return)][0].value) == "app_send_channel.send"
    ctx.check("C01.R8", "trio.task_group:TaskGroup.spawn_app", "open_memory_channel(config.max_app_queue_size): send returned, receive given to the app", ok, "request messages must travel through one bounded FIFO channel", t)

    # ---------- R15: every chunk that was read is delivered
    ctx.rule("C01.R15", "both read loops hand every successfully read chunk to the protocol: between the read and protocol.handle(RawData(data)) there is no test that could skip it (an EOF / emptiness test belongs after the delivery)", floor=2)
    for mod_, read_call in (("asyncio.tcp_server", "self.reader.read"), ("trio.tcp_server", "self.stream.receive_some")):
        rdf = repo.func(mod_, "TCPServer._read_data")
        gr = CFG(rdf)
        rn = gr.where(has_call(read_call))
        hn_ = gr.where(has_stmt(lambda n: isinstance(n, ast.Call) and call_name(n) == "self.protocol.handle" and "RawData" in norm(n)))
        okr = len(rn) >= 1 and len(hn_) == 1
        skipping = None
        if okr:
            seen_, todo = set(), [m for m, lab in gr.succ[rn[-1]] if lab not in ("exc", "uncaught", "catch")]
            while todo:
                cur = todo.pop()
                if cur in seen_ or cur == hn_[0]:
                    continue
                seen_.add(cur)
                nd = gr.node(cur)
                if nd.kind == "test" and skipping is None:
                    skipping = nd
                todo += [m for m, lab in gr.succ[cur] if lab not in ("exc", "uncaught", "catch")]
            okr = skipping is None and hn_[0] in {m for c_ in (seen_ | {rn[-1]}) for m, _ in gr.succ[c_]}
        ctx.check("C01.R15", f"{mod_}:TCPServer._read_data", "read -> protocol.handle(RawData(data)) with no test in between", bool(okr), "a test between the read and the delivery (e.g. at_eof() checked after the read) can drop a chunk that arrived together with the client's FIN: the request body is truncated and never completed", skipping.ast if skipping is not None else rdf)

    # ---------- R14 (addresses)
    ctx.rule("C01.R14", "scope client/server are (host, port) pairs: parse_socket_addr maps an AF_INET sockaddr to itself, an AF_INET6 4-tuple to its first two fields and anything else to None (decision table, interpreted); both workers feed it the socket's family and getpeername/getsockname", floor=3)
    from ..pred import eval_function as _evf

    psa = repo.func("utils", "parse_socket_addr")
    fam = {"socket.AF_INET": 2, "socket.AF_INET6": 10, "socket.AF_UNIX": 1}
    for famv, addr, want in ((2, ("1.2.3.4", 80), ("1.2.3.4", 80)), (10, ("::1", 8080, 0, 0), ("::1", 8080)), (1, "/tmp/sock", None)):
        try:
            got = _evf(psa, {**fam, "family": famv, "address": addr})
            got = tuple(got) if isinstance(got, (list, tuple)) else got
        except Exception as error:
            got = f"not evaluable: {error}"
        ctx.check("C01.R14", "utils:parse_socket_addr", f"family {famv}: {addr} -> {want}", got == want, f"parse_socket_addr({famv}, {addr}) gives {got}, expected {want}: the scope's client/server would not be the (host, port) pair", psa)

    # ---------- R9
    vs = repo.func("utils", "valid_server_name")
    wv = "utils:valid_server_name"
    from ..pred import eval_function

    table = [
        ([], [(b"host", b"b.com")], True),
        (["a.com"], [(b"host", b"a.com")], True),
        (["a.com"], [(b"Host", b"a.com")], True),
        (["a.com"], [(b"HOST", b"a.com")], True),
        (["a.com"], [(b"x-host", b"a.com")], False),
        (["a.com"], [(b"hosts", b"a.com")], False),
        (["a.com"], [(b"host", b"b.com")], False),
        (["a.com"], [], False),
        (["a.com", "c.com"], [(b"x", b"y"), (b"host", b"c.com")], True),
        (["a.com"], [(b"host", b"b.com"), (b"host", b"a.com")], False),
    ]
    for names, hdrs, want in table:
        try:
            got = eval_function(vs, {"config.server_names": names, "request.headers": hdrs})
        except Exception as error:  # Unknown construct / raised
            got = f"not evaluable: {error}"
        ctx.check("C01.R9", wv, f"valid_server_name(server_names={names}, headers={hdrs}) is {want}", got is want, f"gives {got}: with no server_names every request is valid; otherwise the first host header (matched case-insensitively - with h11_pass_raw_headers it arrives as the client spelt it) must be one of the names", vs)

    # ---------- R10
    from . import c06

    c06.run(Alias(ctx, "C01.R10", "pipelined requests: the parked reader is released only after the finished stream was torn down (C06.R3/R4), otherwise a buffered request is never started or loses its body", only={"C06.R3", "C06.R4"}))

    from . import c13

    c13.run(Alias(ctx, "C01.R13", "no request byte is lost or duplicated when the protocol is switched (prior-knowledge / h2c hand-over replays h11's trailing bytes once; the WebSocket pass-through is seeded with them) (C13.R2/R3/R4/R7)", only={"C13.R2", "C13.R3", "C13.R4", "C13.R7"}))
    from .c11 import upgrade_table

    ctx.rule("C01.R12", "an HTTP/1 request is served by an HTTP application unless it is a GET with Upgrade: websocket and a Connection: upgrade token (decision table shared with C11.R2); HTTP/2: unless it is CONNECT", floor=2)
    upgrade_table(ctx, "C01.R12")
    from . import c16

    c16.run(Alias(ctx, "C01.R11", "both workers realise the same read loop, application wrapper and bounded application queue (C16 skeletons for TCPServer._read_data, _handle, TaskGroup.spawn_app): a one-sided edit changes what one worker delivers", only={"C16.R2"}, where=["TCPServer._read_data", ":_handle", "TaskGroup.spawn_app"]))
    from . import typestate_rules

    typestate_rules.run_for(ctx, "C01")
    ctx.assume("not decided: byte equality under every segmentation and framing (h11 / h2 incremental parsers, runtime values); urllib.parse.unquote semantics; timing between reads and application progress")
