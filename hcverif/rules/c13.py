"""C13 — protocol selection and upgrades lose no bytes (structural clauses)."""
from __future__ import annotations

import ast
from typing import List

from ..astq import ancestors, arg, call_name, calls, dotted, find_calls, guard_atoms, guards, kwarg, norm, provenance, walk_local
from ..cfg import CFG
from ..core import Ctx
from ..pred import Unknown, eval_expr
from .common import arm_for, explain, find_in, has_call, has_stmt

NINE = ["self.app", "self.config", "self.context", "self.task_group", "self.state", "self.ssl", "self.client", "self.server", "self.send"]
PREFACE_HEAD = b"PRI * HTTP/2.0\r\n\r\n"


def run(ctx: Ctx) -> None:
    if getattr(ctx, "_depth", 0) >= 2:
        return  # alias of an alias: not followed (breaks import cycles between rule modules)
    repo = ctx.repo
    ctx.rule("C13.R1", "ProtocolWrapper picks H2Protocol iff ALPN == 'h2', else H11Protocol, and hands both the same nine collaborators", floor=3)
    ctx.rule("C13.R2", "h11 Request arm: _check_protocol before _create_stream; h2c upgrade only for `upgrade: h2c` without a body, announced with 101 + connection: upgrade/upgrade: h2c, raising with the trailing bytes and the request; prior knowledge recognised by PRI/*/2.0 raising with the consumed preface line + trailing bytes", floor=6)
    ctx.rule("C13.R3", "hand-over: each except arm of ProtocolWrapper.handle builds a new H2Protocol from the same nine collaborators, initiates it (with the upgrade headers and settings for h2c) and replays error.data unless empty; nothing else consumes error.data", floor=6)
    ctx.rule("C13.R4", "the replayed prefix literal is exactly the part of the HTTP/2 preface that h11 parsed as a request line", floor=1)
    ctx.rule("C13.R5", "H2Protocol.initiate(headers) creates stream 1 from the upgrade request and ends its body; the h2c error carries :method/:path/:authority and the HTTP2-Settings value", floor=4)
    ctx.rule("C13.R6", "ALPN and TLS state are read from the transport in both workers; cleartext connections start as http/1.1", floor=4)
    ctx.rule("C13.R8", "a GET with Upgrade: websocket and a Connection header containing the token `upgrade` (any spacing/case, any position) starts a WebSocket; HTTP/2 CONNECT does (same table as C11.R2)", floor=2)
    ctx.rule("C13.R9", "library calls on the hand-over path (H2Protocol.initiate) bind against the installed h2 (a mismatch is a TypeError right after the 101 response)", floor=1)
    ctx.rule("C13.R7", "WebSocket pass-through after the HTTP/1.1 upgrade is seeded with h11's trailing data and returns every buffered byte once", floor=4)

    pw = repo.func("protocol", "ProtocolWrapper.__init__")
    w = "protocol:ProtocolWrapper.__init__"
    h2c = [c for c in calls(pw) if call_name(c) == "H2Protocol"]
    h11c = [c for c in calls(pw) if call_name(c) == "H11Protocol"]
    ok = len(h2c) == 1 and len(h11c) == 1
    if ok:
        ok = ("alpn_protocol == 'h2'", True) in guard_atoms(h2c[0]) and ("alpn_protocol == 'h2'", False) in guard_atoms(h11c[0])
    ctx.check("C13.R1", w, "ALPN h2 -> H2Protocol else H11Protocol", ok, "protocol choice must depend only on the negotiated ALPN value", pw)
    for c, nm in ((h2c[0] if h2c else None, "H2Protocol"), (h11c[0] if h11c else None, "H11Protocol")):
        if c is not None:
            got = [norm(a) for a in c.args]
            ctx.check("C13.R1", w, f"{nm}(<nine collaborators>)", got == NINE, f"{nm} constructed with {got}", c)
    # the attributes are the constructor parameters
    amap = {}
    for n in walk_local(pw):
        if isinstance(n, ast.Assign) and dotted(n.targets[0]) and dotted(n.targets[0]).startswith("self.") and isinstance(n.value, ast.Name):
            amap[dotted(n.targets[0])] = n.value.id
    want = {"self.app": "app", "self.config": "config", "self.context": "context", "self.task_group": "task_group", "self.state": "state", "self.ssl": "ssl", "self.client": "client", "self.server": "server", "self.send": "send"}
    ctx.check("C13.R1", w, "collaborators stored from the matching parameters", all(amap.get(k) == v for k, v in want.items()), f"stored: {amap}", pw)

    # R2
    M = "protocol.h11"
    he = repo.func(M, "H11Protocol._handle_events")
    g = CFG(he)
    cp = g.where(has_call("self._check_protocol"))
    cs = g.where(has_call("self._create_stream"))
    ok = len(cp) == 1 and len(cs) == 1 and g.dominates(lambda n: n.id in cp, cs[0]) and norm(arg(find_calls(he, "self._check_protocol")[0], 0)) == "event"
    ctx.check("C13.R2", f"{M}:H11Protocol._handle_events", "_check_protocol(event) dominates _create_stream(event)", ok, "the protocol switch must be decided before a stream is created for the request", he)
    ck = repo.func(M, "H11Protocol._check_protocol")
    wc = f"{M}:H11Protocol._check_protocol"
    raises = [n for n in walk_local(ck) if isinstance(n, ast.Raise) and isinstance(n.exc, ast.Call)]
    r_h2c = [r for r in raises if call_name(r.exc) == "H2CProtocolRequiredError"]
    r_pri = [r for r in raises if call_name(r.exc) == "H2ProtocolAssumedError"]
    ok = len(r_h2c) == 1 and len(r_pri) == 1
    ctx.need(ok, "_check_protocol: expected one raise of each switch error")
    ga = guard_atoms(r_h2c[0])
    ok = ("upgrade_value.lower() == 'h2c'", True) in ga and ("has_body", False) in ga
    ctx.check("C13.R2", wc, "h2c only when upgrade == h2c and not has_body", ok, f"h2c switch guards: {sorted(ga)}", r_h2c[0])
    # has_body derives from content-length / transfer-encoding headers; upgrade_value from the upgrade header
    hb = [n for n in walk_local(ck) if isinstance(n, ast.Assign) and dotted(n.targets[0]) == "has_body" and norm(n.value) == "True"]
    ok = len(hb) == 1 and any("content-length" in a[0] and "transfer-encoding" in a[0] and a[1] for a in guard_atoms(hb[0]))
    uv = [n for n in walk_local(ck) if isinstance(n, ast.Assign) and dotted(n.targets[0]) == "upgrade_value" and norm(n.value) != "''"]
    ok = ok and len(uv) == 1 and ("sanitised_name == 'upgrade'", True) in guard_atoms(uv[0]) and "event.headers" in provenance(uv[0].value, ck).leaves
    ctx.check("C13.R2", wc, "has_body <- content-length|transfer-encoding; upgrade_value <- upgrade header", ok, "body detection / upgrade header extraction changed", ck)
    a0, a1 = (r_h2c[0].exc.args + [None, None])[:2]
    ok = norm(a0) == "self.connection.trailing_data[0]" and norm(a1) == "event"
    ctx.check("C13.R2", wc, "H2CProtocolRequiredError(trailing_data[0], event)", ok, f"raised with ({norm(a0)}, {norm(a1)})", r_h2c[0])
    gck = CFG(ck)
    rn = gck.where(has_stmt(lambda n: isinstance(n, ast.Call) and call_name(n) == "H2CProtocolRequiredError"))
    i101 = [c for c in calls(ck) if call_name(c) == "h11.InformationalResponse"]
    ok = len(i101) == 1 and norm(kwarg(i101[0], "status_code")) == "101" and "(b'connection', b'upgrade')" in norm(kwarg(i101[0], "headers")) and "(b'upgrade', b'h2c')" in norm(kwarg(i101[0], "headers"))
    ok = ok and bool(rn) and gck.dominates(has_call("self._send_h11_event"), rn[0])
    ctx.check("C13.R2", wc, "101 connection: upgrade / upgrade: h2c sent before switching", ok, "the h2c switch must be announced with a 101 response first", i101[0] if i101 else ck)
    ga = guard_atoms(r_pri[0])
    from ..astq import guards as _g13
    from ..pred import eval_expr as _ev13

    bad13 = None
    for m_, t_, v_, want_ in ((b"PRI", b"*", b"2.0", True), (b"PRI", b"*", b"1.1", False), (b"GET", b"*", b"2.0", False), (b"PRI", b"/", b"2.0", False), (b"OPTIONS", b"*", b"1.1", False)):
        env13 = {"event.method": m_, "event.target": t_, "event.http_version": v_, "upgrade_value": "", "has_body": False, "upgrade_value.lower()": ""}
        try:
            got_ = all(bool(_ev13(tt, env13)) == pp for tt, pp in _g13(r_pri[0]))
        except Exception as error:
            got_ = f"not evaluable: {error}"
        if got_ is not want_:
            bad13 = (m_, t_, v_, got_)
            break
    ctx.check("C13.R2", wc, "prior knowledge iff PRI * HTTP/2.0", bad13 is None, f"request line {bad13[:3] if bad13 else ''}: switches = {bad13[3] if bad13 else ''}; prior-knowledge guards: {sorted(ga)}", r_pri[0])
    e = r_pri[0].exc.args[0] if r_pri[0].exc.args else None
    ok = isinstance(e, ast.BinOp) and isinstance(e.op, ast.Add) and isinstance(e.left, ast.Constant) and norm(e.right) == "self.connection.trailing_data[0]"
    ctx.check("C13.R2", wc, "H2ProtocolAssumedError(<preface line> + trailing_data[0])", bool(ok), f"raised with {norm(e)}", r_pri[0])
    lit = e.left.value if ok else None
    ctx.check("C13.R4", wc, "literal == b'PRI * HTTP/2.0\\r\\n\\r\\n'", lit == PREFACE_HEAD, f"replayed prefix is {lit!r}; h11 consumed exactly {PREFACE_HEAD!r} of the 24-byte preface", r_pri[0])

    # R3
    wh = repo.func("protocol", "ProtocolWrapper.handle")
    ww = "protocol:ProtocolWrapper.handle"
    trys = [n for n in walk_local(wh) if isinstance(n, ast.Try)]
    ctx.need(len(trys) == 1, "ProtocolWrapper.handle: expected one try statement")
    t = trys[0]
    first = [c for s in t.body for c in ast.walk(s) if isinstance(c, ast.Call) and call_name(c) == "self.protocol.handle"]
    ctx.check("C13.R3", ww, "try: self.protocol.handle(event)", len(first) == 1 and norm(arg(first[0], 0)) == "event", "events must first go to the current protocol", t)
    hmap = {norm(h.type): h for h in t.handlers}
    for exc, init_args in (("H2ProtocolAssumedError", []), ("H2CProtocolRequiredError", ["error.headers", "error.settings"])):
        h = hmap.get(exc)
        ctx.need(h is not None, f"ProtocolWrapper.handle: no except {exc} arm")
        name = h.name or 'error'
        body_calls = [c for s in h.body for c in ast.walk(s) if isinstance(c, ast.Call)]
        new = [c for c in body_calls if call_name(c) == "H2Protocol"]
        init = [c for c in body_calls if call_name(c) == "self.protocol.initiate"]
        rep = [c for c in body_calls if call_name(c) == "self.protocol.handle"]
        asg = [s for s in h.body if isinstance(s, ast.Assign) and dotted(s.targets[0]) == "self.protocol"]
        ok = len(new) == 1 and [norm(a) for a in new[0].args] == NINE and len(asg) == 1 and asg[0].value is new[0]
        ctx.check("C13.R3", ww, f"{exc}: self.protocol = H2Protocol(<nine>)", ok, "the replacement protocol must get the same collaborators", h)
        ok = len(init) == 1 and [norm(a).replace(name + ".", "error.") for a in init[0].args] == init_args and isinstance(getattr(init[0], "_parent", None), ast.Await)
        ctx.check("C13.R3", ww, f"{exc}: await initiate({', '.join(init_args)})", ok, f"initiate called as {norm(init[0]) if init else 'missing'}", h)
        ok = len(rep) == 1 and norm(arg(rep[0], 0)).replace(name + ".", "error.") == "RawData(data=error.data)"
        if ok:
            extra = [(norm(tst).replace(name + ".", "error."), p) for tst, p in guards(rep[0], stop=h)]
            ok = extra in ([("error.data != b''", True)], [("error.data", True)], [])
            # order: assign -> initiate -> replay
            ok = ok and asg[0].lineno < init[0].lineno < rep[0].lineno and isinstance(getattr(rep[0], "_parent", None), ast.Await)
        ctx.check("C13.R3", ww, f"{exc}: replay RawData(error.data) after initiate, skipped only when empty", ok, "bytes read past the switch point must be replayed to the new protocol exactly once", h)
        uses = [n for s in h.body for n in ast.walk(s) if isinstance(n, ast.Attribute) and norm(n) == f"{name}.data"]
        ctx.check("C13.R3", ww, f"{exc}: error.data used only for the replay", len(uses) <= 2, f"{len(uses)} uses of {name}.data", h)

    # R5
    M2 = "protocol.h2"
    ini = repo.func(M2, "H2Protocol.initiate")
    wi = f"{M2}:H2Protocol.initiate"
    up = find_calls(ini, "self.connection.initiate_upgrade_connection")
    pl = find_calls(ini, "self.connection.initiate_connection")
    ok = len(up) == 1 and len(pl) == 1 and ("settings is not None", True) in guard_atoms(up[0]) and ("settings is not None", False) in guard_atoms(pl[0]) and norm(arg(up[0], 0)) == "settings"
    ctx.check("C13.R5", wi, "settings given -> initiate_upgrade_connection(settings) else initiate_connection()", ok, "the HTTP2-Settings payload must be applied exactly for h2c upgrades", ini)
    cs_ = find_calls(ini, "self._create_stream")
    eb = [c for c in calls(ini) if "EndBody" in norm(c) and isinstance(c.func, ast.Attribute) and c.func.attr == "handle"]
    ok = len(cs_) == 1 and ("headers is not None", True) in guard_atoms(cs_[0]) and len(eb) == 1 and ("headers is not None", True) in guard_atoms(eb[0]) and cs_[0].lineno < eb[0].lineno
    sid = [n for n in walk_local(ini) if isinstance(n, ast.Assign) and norm(n.targets[0]) == "event.stream_id"]
    hdr = [n for n in walk_local(ini) if isinstance(n, ast.Assign) and norm(n.targets[0]) == "event.headers"]
    ok = ok and ((len(sid) == 1 and norm(sid[0].value) == "1" and len(hdr) == 1 and norm(hdr[0].value) == "headers") or ("stream_id=1" in norm(ini) and "headers=headers" in norm(ini)))
    ctx.check("C13.R5", wi, "upgrade request becomes stream 1 with an ended body", ok, "the upgraded request must be served as stream 1 and its (absent) body ended", ini)
    st = find_calls(ini, "self.task_group.spawn")
    ctx.check("C13.R5", wi, "send task spawned unconditionally", len(st) == 1 and norm(arg(st[0], 0)) == "self.send_task" and not guard_atoms(st[0]), "every HTTP/2 connection needs its send task", ini)
    er = repo.func("protocol.h11", "H2CProtocolRequiredError.__init__")
    src = norm(er)
    ok = "(b':method', request.method)" in src and "(b':path', request.target)" in src and "headers.append((b':authority', value))" in src
    st_ = [n for n in walk_local(er) if isinstance(n, ast.Assign) and dotted(n.targets[0]) == "settings" and "value" in norm(n.value)]
    ok = ok and len(st_) == 1 and any("http2-settings" in a[0] and a[1] for a in guard_atoms(st_[0]))
    stores = {dotted(n.targets[0]): norm(n.value) for n in walk_local(er) if isinstance(n, ast.Assign) and (dotted(n.targets[0]) or "").startswith("self.")}
    ok = ok and stores == {"self.data": "data", "self.headers": "headers", "self.settings": "settings"}
    ctx.check("C13.R5", "protocol.h11:H2CProtocolRequiredError.__init__", "carries data, pseudo-headers + headers, HTTP2-Settings", ok, f"stores: {stores}", er)

    # R6
    a = repo.func("asyncio.tcp_server", "TCPServer.run")
    src = norm(a)
    ok = "ssl_object.selected_alpn_protocol()" in src and "self.writer.get_extra_info('ssl_object')" in src
    sets = [(norm(n.value), sorted(guard_atoms(n))) for n in walk_local(a) if isinstance(n, ast.Assign) and dotted(n.targets[0]) == "alpn_protocol"]
    ok = ok and sorted(v for v, _ in sets) == ["'http/1.1'", "ssl_object.selected_alpn_protocol()"]
    ctx.check("C13.R6", "asyncio.tcp_server:TCPServer.run", "alpn from ssl_object else http/1.1", ok, f"alpn assignments: {sets}", a)
    pwc = [c for c in calls(a) if call_name(c) == "ProtocolWrapper"]
    ok = len(pwc) == 1 and len(pwc[0].args) == 10 and norm(pwc[0].args[9]) == "alpn_protocol" and norm(pwc[0].args[5]) == "ssl" and norm(pwc[0].args[8]) == "self.protocol_send"
    ctx.check("C13.R6", "asyncio.tcp_server:TCPServer.run", "ProtocolWrapper(..., ssl, client, server, self.protocol_send, alpn_protocol)", ok, "the wrapper must receive the negotiated protocol", pwc[0] if pwc else a)
    t_ = repo.func("trio.tcp_server", "TCPServer.run")
    src = norm(t_)
    sets = [(norm(n.value), sorted(guard_atoms(n))) for n in walk_local(t_) if isinstance(n, ast.Assign) and dotted(n.targets[0]) == "alpn_protocol"]
    ok = sorted(v for v, _ in sets) == ["'http/1.1'", "self.stream.selected_alpn_protocol()"]
    ctx.check("C13.R6", "trio.tcp_server:TCPServer.run", "alpn from the SSL stream else http/1.1", ok, f"alpn assignments: {sets}", t_)
    pwc = [c for c in calls(t_) if call_name(c) == "ProtocolWrapper"]
    ok = len(pwc) == 1 and len(pwc[0].args) == 10 and norm(pwc[0].args[9]) == "alpn_protocol" and norm(pwc[0].args[5]) == "ssl" and norm(pwc[0].args[8]) == "self.protocol_send"
    ctx.check("C13.R6", "trio.tcp_server:TCPServer.run", "ProtocolWrapper(..., ssl, client, server, self.protocol_send, alpn_protocol)", ok, "the wrapper must receive the negotiated protocol", pwc[0] if pwc else t_)

    # R7
    wsinit = repo.func(M, "H11WSConnection.__init__")
    bufs = [n for n in walk_local(wsinit) if isinstance(n, ast.Assign) and dotted(n.targets[0]) == "self.buffer"]
    ok = False
    if len(bufs) == 1 and isinstance(bufs[0].value, ast.Call) and call_name(bufs[0].value) == "bytearray" and len(bufs[0].value.args) == 1:
        a0 = bufs[0].value.args[0]
        pv7 = provenance(a0, wsinit)
        ok = norm(a0) == "h11_connection.trailing_data[0]" or ("h11_connection.trailing_data" in pv7.leaves and "[0]" in pv7.ops and "[1]" not in pv7.ops)
    ctx.check("C13.R7", f"{M}:H11WSConnection.__init__", "buffer seeded from trailing_data[0]", ok, "bytes that followed the upgrade request in the same read would be lost", wsinit)
    rd = repo.func(M, "H11WSConnection.receive_data")
    ok = [norm(s) for s in rd.body] == ["self.buffer.extend(data)"]
    ctx.check("C13.R7", f"{M}:H11WSConnection.receive_data", "buffer.extend(data)", ok, "received bytes must be appended", rd)
    ne = repo.func(M, "H11WSConnection.next_event")
    src = norm(ne)
    rets = [n for n in walk_local(ne) if isinstance(n, ast.Return)]
    ok = len(rets) == 2 and "Data(stream_id=STREAM_ID, data=bytes(self.buffer))" in src and "self.buffer = bytearray()" in src
    if ok:
        d = [r for r in rets if norm(r.value) == "event"]
        nd = [r for r in rets if norm(r.value) == "h11.NEED_DATA"]
        ok = len(d) == 1 and len(nd) == 1 and ("self.buffer", True) in guard_atoms(d[0]) and ("self.buffer", False) in guard_atoms(nd[0])
        rs = [n for n in walk_local(ne) if isinstance(n, ast.Assign) and dotted(n.targets[0]) == "self.buffer"]
        ev = [n for n in walk_local(ne) if isinstance(n, ast.Assign) and dotted(n.targets[0]) == "event"]
        ok = ok and len(rs) == 1 and len(ev) == 1 and ev[0].lineno < rs[0].lineno < d[0].lineno
    ctx.check("C13.R7", f"{M}:H11WSConnection.next_event", "all buffered bytes returned once, then NEED_DATA", ok, "pass-through must neither drop nor repeat bytes", ne)
    cs11 = repo.func(M, "H11Protocol._create_stream")
    sw = [n for n in walk_local(cs11) if isinstance(n, ast.Assign) and dotted(n.targets[0]) == "self.connection"]
    ok = len(sw) == 1 and "H11WSConnection(" in norm(sw[0].value) and "self.connection" in norm(sw[0].value)
    if ok:
        wsn = [n for n in walk_local(cs11) if isinstance(n, ast.Assign) and dotted(n.targets[0]) == "self.stream" and "WSStream" in norm(n.value)]
        ok = len(wsn) == 1 and guard_atoms(wsn[0]) == guard_atoms(sw[0])
    ctx.check("C13.R7", f"{M}:H11Protocol._create_stream", "connection swapped for the pass-through exactly when a WSStream is created", ok, "the pass-through connection must replace h11 exactly for WebSocket upgrades", cs11)

    from ..escape import signature_mismatches
    from .c04 import ATTR_TYPES

    checked, bad = signature_mismatches(repo, ["protocol.h2", "protocol"], ATTR_TYPES)
    on_path = [b for b in bad if b[1] == "H2Protocol.initiate"]
    ctx.check("C13.R9", "protocol.h2:H2Protocol.initiate", "library calls bind", True, "", None, sample={"calls_checked": checked})
    for mod, q, c, desc, err in on_path:
        ctx.check("C13.R9", f"{mod}:{q}", f"{desc}({', '.join([norm(a) for a in c.args] + [k.arg + '=' for k in c.keywords])})", False, f"call cannot bind against the installed library: {err}: every h2c upgrade ends in TypeError after the 101 response, stream 1 is never served", c)

    from .c11 import upgrade_table

    upgrade_table(ctx, "C13.R8")

    from ..core import Alias
    from . import c16

    c16.run(Alias(ctx, "C13.R10", "both workers build the protocol wrapper from the negotiated ALPN value the same way (C16 skeleton for TCPServer.run)", only={"C16.R2"}, where=["TCPServer.run"]))
    ctx.assume("not decided: independence from segmentation (h11's incremental parser), TLS/ALPN negotiation itself, that h2 accepts the replayed bytes")
