"""C06 — HTTP/1.x persistent-connection and pipelining safety (structural clauses)."""
from __future__ import annotations

import ast
from typing import Optional

from ..astq import ancestors, arg, call_name, calls, dotted, find_calls, guard_atoms, guards, kwarg, norm, provenance, walk_local
from ..cfg import CFG
from ..core import Alias, Ctx
from ..pred import Unknown, eval_expr, guards_table
from .common import arm_for, assigns_to, explain, find_in, has_call, has_stmt, sends_of

M = "protocol.h11"


def _is_send_of(node, cls: str, **kw) -> bool:
    """CFG node predicate helper: node evaluates self.send(<cls>(...)) with given keyword constants."""

    def pred(n: ast.AST) -> bool:
        if isinstance(n, ast.Call) and call_name(n) == "self.send" and n.args and isinstance(n.args[0], ast.Call):
            c = n.args[0]
            if (dotted(c.func) or "").split(".")[-1] != cls:
                return False
            for k, v in kw.items():
                got = kwarg(c, k)
                if got is None and c.args:
                    got = c.args[0]
                if got is None or norm(got) != v:
                    return False
            return True
        return False

    from ..cfg import stmt_has

    return stmt_has(node, pred)


def run(ctx: Ctx) -> None:
    if getattr(ctx, "_depth", 0) >= 2:
        return  # alias of an alias: not followed (breaks import cycles between rule modules)
    repo = ctx.repo
    ctx.rule("C06.R1", "start_next_cycle() runs only when the worker is not terminating and both h11 sides are DONE; every path of _maybe_recycle ends by recycling (Updated(idle=True)) or by closing (Closed)", floor=3)
    ctx.rule("C06.R2", "the final response carries connection: close exactly when keep_alive_requests >= keep_alive_max_requests; the counter is incremented by one, once per created stream", floor=4)
    ctx.rule("C06.R3", "the paused reader parks with clear() then wait() and no yielding await in between (EventWrapper.clear is non-yielding in both workers); _maybe_recycle releases it on the recycle and close paths", floor=4)
    ctx.rule("C06.R4", "one stream at a time: self.stream is set only by _create_stream and cleared only by _close_stream; the old stream is torn down before the reader is released or the cycle restarted; body events go only to self.stream and are dropped when there is none", floor=6)
    ctx.rule("C06.R5", "every server-generated HTTP/1 error response announces connection: close", floor=3)
    ctx.rule("C06.R6", "request events are forwarded sequentially (awaited, no spawn) in the order h11 yields them", floor=3)

    mr = repo.func(M, "H11Protocol._maybe_recycle")
    w = f"{M}:H11Protocol._maybe_recycle"
    snc = find_calls(mr, "self.connection.start_next_cycle")
    ctx.need(len(snc) == 1, "expected one start_next_cycle() call")

    def canon(t: str) -> Optional[str]:
        if t == "self.context.terminated.is_set()":
            return "term"
        if t in ("self.connection.our_state is h11.DONE", "self.connection.our_state == h11.DONE"):
            return "our"
        if t in ("self.connection.their_state is h11.DONE", "self.connection.their_state == h11.DONE"):
            return "their"
        return None

    gs = guards(snc[0])
    cex = guards_table(gs, lambda e: (not e.get("term", True)) and e.get("our", False) and e.get("their", False), {}, canon) if gs else {"no guard": True}
    have = {canon(a) for t, _ in gs for a in __import__("hcverif.pred", fromlist=["bool_atoms"]).bool_atoms(t)}
    ok = cex is None and {"term", "our", "their"} <= have
    ctx.check("C06.R1", w, "recycle iff not terminated and our_state is DONE and their_state is DONE", ok, f"recycle guard differs from the reference at {cex}; guards: {[(norm(t), p) for t, p in gs]}", snc[0])
    g = CFG(mr)
    done = lambda n: _is_send_of(n, "Updated", idle="True") or _is_send_of(n, "Closed")
    wit = g.must_pass(g.entry, [g.exit], done)
    ctx.check("C06.R1", w, "every exit recycles (Updated(idle=True)) or closes (Closed)", wit is None, "a path leaves the connection neither recycled nor closed: " + explain(g, wit), mr)
    # the recycle announcement only after a successful start_next_cycle
    upd = g.where(lambda n: _is_send_of(n, "Updated", idle="True"))
    ok = bool(upd) and all(g.dominates(has_call("self.connection.start_next_cycle"), u, skip_labels=("exc",)) for u in upd)
    ctx.check("C06.R1", w, "Updated(idle=True) only after start_next_cycle()", ok, "the connection is declared idle without having been recycled", mr)

    # R2
    ss = repo.func(M, "H11Protocol.stream_send")
    ws = f"{M}:H11Protocol.stream_send"
    apps = [c for c in calls(ss) if isinstance(c.func, ast.Attribute) and c.func.attr == "append" and c.args and norm(c.args[0]) == "(b'connection', b'close')"]
    ok = len(apps) == 1
    detail = ""
    if ok:
        gs = [(t, p) for t, p in guards(apps[0]) if "keep_alive" in norm(t)]
        ok = len(gs) == 1
        if ok:
            for req, mx, want in ((0, 1, False), (1, 1, True), (2, 1, True), (999, 1000, False), (1000, 1000, True), (1, 0, True)):
                try:
                    got = bool(eval_expr(gs[0][0], {"self.keep_alive_requests": req, "self.config.keep_alive_max_requests": mx})) == gs[0][1]
                except Unknown as u:
                    got = None
                if got != want:
                    ok = False
                    detail = f"with {req} requests served and a maximum of {mx} the close announcement is {got}, expected {want}"
        # must be in the final-response branch (status >= 200) of the Response arm
        ga = guard_atoms(apps[0])
        ok = ok and (("event.status_code >= 200", True) in ga or ("event.status_code < 200", False) in ga)
    ctx.check("C06.R2", ws, "connection: close iff keep_alive_requests >= keep_alive_max_requests", ok, detail or "close announcement missing or mis-guarded", apps[0] if apps else ss)
    resp = [c for c in calls(ss) if call_name(c) == "h11.Response"]
    ok = len(resp) == 1 and apps and dotted(apps[0].func.value) is not None and dotted(apps[0].func.value) in provenance(kwarg(resp[0], "headers"), ss).leaves | {norm(kwarg(resp[0], "headers"))}
    ctx.check("C06.R2", ws, "the announced header list is the one sent", bool(ok), "connection: close is appended to a list that is not the response's header list", resp[0] if resp else ss)
    cs = repo.func(M, "H11Protocol._create_stream")
    incs = [n for n in walk_local(cs) if isinstance(n, ast.AugAssign) and dotted(n.target) == "self.keep_alive_requests"]
    ok = len(incs) == 1 and isinstance(incs[0].op, ast.Add) and norm(incs[0].value) == "1" and not guard_atoms(incs[0]) and not any(isinstance(a, (ast.For, ast.While)) for a in ancestors(incs[0]))
    ctx.check("C06.R2", f"{M}:H11Protocol._create_stream", "keep_alive_requests += 1 once per stream", ok, "the per-connection request counter must grow by exactly one per request", incs[0] if incs else cs)
    others = []
    for name, fn in repo.methods(M, "H11Protocol").items():
        for n in walk_local(fn):
            if isinstance(n, (ast.Assign, ast.AugAssign)) and any(dotted(t) == "self.keep_alive_requests" for t in (n.targets if isinstance(n, ast.Assign) else [n.target])):
                others.append((name, norm(n)))
    ok = sorted(others) == sorted([("__init__", "self.keep_alive_requests = 0"), ("_create_stream", "self.keep_alive_requests += 1")])
    ctx.check("C06.R2", f"{M}:H11Protocol", "counter written only at init (0) and per stream (+1)", ok, f"writes: {others}", None)

    # R3
    he = repo.func(M, "H11Protocol._handle_events")
    wh = f"{M}:H11Protocol._handle_events"
    paused = None
    for n in walk_local(he):
        if isinstance(n, ast.If) and "h11.PAUSED" in norm(n.test):
            paused = n
    ctx.need(paused is not None, "PAUSED arm not found in _handle_events")
    aw = [norm(a.value) for s in paused.body for a in ast.walk(s) if isinstance(a, ast.Await)]
    ok = aw == ["self.can_read.clear()", "self.can_read.wait()"]
    ctx.check("C06.R3", wh, "PAUSED: await can_read.clear(); await can_read.wait()", ok, f"awaits in the PAUSED arm: {aw} (an extra yielding await between the check and the wait loses the wake-up; a missing clear spins)", paused)
    for mod in ("asyncio.worker_context", "trio.worker_context"):
        fn = repo.func(mod, "EventWrapper.clear")
        ny = not any(isinstance(n, (ast.Await, ast.AsyncFor, ast.AsyncWith)) for n in walk_local(fn))
        ctx.check("C06.R3", f"{mod}:EventWrapper.clear", "clear() does not yield", ny, "EventWrapper.clear() yields to the scheduler: a set() between clear() and wait() can be lost", fn)
    sets = g.where(has_call("self.can_read.set"))
    # on the normal recycle path and on the close path the reader is released
    rec = g.where(has_call("self.connection.start_next_cycle"))
    ok = bool(rec) and g.must_pass(rec[0], [g.exit], has_call("self.can_read.set"), skip_labels=("exc",)) is None
    ctx.check("C06.R3", w, "recycle path releases the reader", ok, "after start_next_cycle() the parked reader is not released", mr)
    # close path = every normal path that does not recycle: it must release the reader as well
    wit = g.must_pass(g.entry, [g.exit], lambda n: has_call("self.can_read.set")(n) or has_call("self.connection.start_next_cycle")(n), skip_labels=("exc", "uncaught"))
    ok = wit is None and bool(sets)
    ctx.check("C06.R3", w, "close path releases the reader", ok, "when the connection is not recycled the parked reader must still be released", mr)

    # R4
    writes = []
    for name, fn in repo.methods(M, "H11Protocol").items():
        for n in assigns_to(fn, "self.stream"):
            val = getattr(n, "value", None)
            kind = "None" if norm(val) == "None" else ((dotted(val.func) if isinstance(val, ast.Call) else norm(val)) or "?")
            writes.append((name, kind))
    want = {("__init__", "None"), ("_create_stream", "WSStream"), ("_create_stream", "HTTPStream"), ("_close_stream", "None")}
    ctx.check("C06.R4", f"{M}:H11Protocol", "self.stream written only by __init__/_create_stream/_close_stream", set(writes) == want, f"self.stream writes: {sorted(writes)}", None)
    cl = g.where(has_call("self._close_stream"))
    ok = bool(cl) and all(g.dominates(has_call("self._close_stream"), n) for n in sets + rec)
    ctx.check("C06.R4", w, "_close_stream() before can_read.set()/start_next_cycle()", ok, "the reader is released (or the cycle restarted) before the finished stream is torn down: the next pipelined request's stream can be installed and then wiped by the late `self.stream = None`", mr)
    cst = repo.func(M, "H11Protocol._close_stream")
    gc = CFG(cst)
    hn = gc.where(has_call("self.stream.handle"))
    nn = gc.where(has_stmt(lambda n: isinstance(n, ast.Assign) and dotted(n.targets[0]) == "self.stream" and norm(n.value) == "None"))
    ok = bool(hn) and bool(nn) and gc.must_pass(hn[0], [gc.exit], lambda n: n.id in nn, skip_labels=("exc",)) is None
    ok = ok and any("StreamClosed" in norm(c) for c in find_calls(cst, "self.stream.handle"))
    ctx.check("C06.R4", f"{M}:H11Protocol._close_stream", "StreamClosed delivered, then slot cleared", ok, "_close_stream must notify the stream and clear the slot", cst)
    # body events only to self.stream, dropped when None
    fw = [c for c in calls(he) if isinstance(c.func, ast.Attribute) and c.func.attr == "handle"]
    ok = len(fw) == 3 and all(norm(c.func.value) == "self.stream" for c in fw) and all(("self.stream is None", False) in guard_atoms(c) for c in fw)
    ctx.check("C06.R4", wh, "Body/EndBody/Data forwarded only to self.stream, never when it is None", ok, f"forwarding sites: {[norm(c)[:50] for c in fw]}", he)
    from ..pred import eval_bool
    from ..core import AnalysisError as _AE

    env = {"isinstance(event, h11.Request)": False, "event is h11.PAUSED": False, "isinstance(event, h11.ConnectionClosed)": False, "event is h11.NEED_DATA": False, "self.stream is None": True}
    none_arm = []
    for b in [n for n in walk_local(he) if isinstance(n, ast.Break)]:
        try:
            if all(eval_bool(t, env) == pol for t, pol in guards(b)) and any("self.stream is None" in norm(t) or "self.stream is not None" in norm(t) for t, _ in guards(b)):
                none_arm.append(b)
        except _AE:
            pass
    ok = len(none_arm) == 1
    ctx.check("C06.R4", wh, "no stream: stop consuming events", ok, "events for a finished request must not be consumed while no stream exists", none_arm[0] if none_arm else he)
    # request arm creates the stream only when h11 yields a Request
    cr = find_calls(he, "self._create_stream")
    ok = len(cr) == 1 and ("isinstance(event, h11.Request)", True) in guard_atoms(cr[0]) and norm(arg(cr[0], 0)) == "event"
    ctx.check("C06.R4", wh, "_create_stream only for h11.Request", ok, "streams must be created exactly for request heads", cr[0] if cr else he)

    # R5
    for mod, qn in ((M, "H11Protocol._send_error_response"), ("protocol.http_stream", "HTTPStream._send_error_response"), ("protocol.ws_stream", "WSStream._send_error_response")):
        fn = repo.func(mod, qn)
        txt = norm(fn)
        resp = [c for c in calls(fn) if (dotted(c.func) or "").split(".")[-1] == "Response"]
        ok = len(resp) == 1 and "(b'connection', b'close')" in norm(kwarg(resp[0], "headers")) and "(b'content-length', b'0')" in norm(kwarg(resp[0], "headers"))
        ctx.check("C06.R5", f"{mod}:{qn}", "error response has connection: close and content-length: 0", ok, "a server-generated error response must announce close", resp[0] if resp else fn)

    # R6
    ok = all(isinstance(getattr(c, "_parent", None), ast.Await) for c in fw + cr)
    ctx.check("C06.R6", wh, "forwarding is awaited in the loop body", ok, "events must be delivered one at a time", he)
    ne = find_calls(he, "self.connection.next_event")
    ok = len(ne) == 1 and any(isinstance(a, ast.While) for a in ancestors(ne[0]))
    ctx.check("C06.R6", wh, "single next_event() per iteration", ok, "the event loop must pull one h11 event per iteration", he)
    hd = repo.func(M, "H11Protocol.handle")
    arm = arm_for(hd, "event", "RawData")
    rd = find_in(arm.body, "self.connection.receive_data") if arm else []
    ev = find_in(arm.body, "self._handle_events") if arm else []
    ok = len(rd) == 1 and len(ev) == 1 and norm(arg(rd[0], 0)) == "event.data" and rd[0].lineno < ev[0].lineno
    ctx.check("C06.R6", f"{M}:H11Protocol.handle", "receive_data(event.data) then _handle_events()", ok, "every read must be fed to h11 before events are processed", arm or hd)

    if not isinstance(ctx, Alias):
        from . import typestate_rules

        typestate_rules.run_for(ctx, "C06")
        from . import c16

        from . import c04

        c04.run(Alias(ctx, "C06.R9", "a malformed message is answered with the hinted 4xx (which announces close) whenever a response can still be started - request line / headers (IDLE) and request body after a valid head (SEND_RESPONSE) - and the connection is then closed without processing further requests (C04.R4)", only={"C04.R4"}))
        from . import c02

        c02.run(Alias(ctx, "C06.R10", "the application's response headers - including its own `Connection: close` - reach the protocol as given (validated, not filtered), so h11 announces the close and the connection is not recycled (C02.R7 on HTTPStream.app_send)", only={"C02.R7"}, where=["HTTPStream.app_send"]))
        c16.run(Alias(ctx, "C06.R7", "both workers hand every read - including the empty read at EOF - to the protocol, report Closed, and really close the transport when the protocol says Closed (C16.R2 on _read_data/_close/protocol_send)", only={"C16.R2"}, where=["TCPServer._read_data", "TCPServer._close", "TCPServer.protocol_send"]))

    ctx.assume("not decided: that h11 never yields events of request N+1 before start_next_cycle(); byte boundaries inside reads; h11's own keep-alive / HTTP/1.0 / Connection: close state tracking (trusted library)")
