"""C02 — response delivery fidelity and legal framing (structural clauses)."""
from __future__ import annotations

import ast
from typing import List, Optional

from ..astq import ancestors, arg, call_name, calls, dotted, find_calls, guard_atoms, guards, kwarg, norm, provenance, walk_local
from ..cfg import CFG
from ..core import Alias, Ctx
from ..pred import Unknown, eval_expr, eval_function
from .common import arm_for, explain, find_in, has_call, has_stmt


def seq_terms(e: ast.AST) -> List[str]:
    """Flatten a header-sequence expression (chain(a, b), a + b, list(x), [..]) into ordered terms."""
    if isinstance(e, ast.Call) and call_name(e) in ("list", "tuple") and len(e.args) == 1:
        return seq_terms(e.args[0])
    if isinstance(e, ast.Call) and call_name(e) in ("chain", "itertools.chain"):
        out: List[str] = []
        for a in e.args:
            out += seq_terms(a)
        return out
    if isinstance(e, ast.BinOp) and isinstance(e.op, ast.Add):
        return seq_terms(e.left) + seq_terms(e.right)
    if isinstance(e, (ast.List, ast.Tuple)) and e.elts and any(isinstance(x, ast.Starred) for x in e.elts):
        out2: List[str] = []
        run: List[str] = []
        for x in e.elts:
            if isinstance(x, ast.Starred):
                if run:
                    out2.append("[" + ", ".join(run) + "]")
                    run = []
                out2 += seq_terms(x.value)
            else:
                run.append(norm(x))
        if run:
            out2.append("[" + ", ".join(run) + "]")
        return out2
    if isinstance(e, ast.List):
        return ["[" + ", ".join(norm(x) for x in e.elts) + "]"] if e.elts else []
    return [norm(e)]


def _te_predicate(repo, c):
    """The condition on the request headers under which emission `c` happens, as a callable on a
    sample header list: (1) an enclosing `for ... in self.scope['headers']` whose body reaches c,
    (2) a guard calling a zero-argument helper method, (3) a guard expression over the headers."""
    import copy

    from ..astq import enclosing_func
    from ..pred import eval_function

    def env(sample):
        return {"self.scope": {"headers": sample, "http_version": "2"}, "TRAILERS_VERSIONS": {"2", "3"}}

    loops = [a for a in ancestors(c) if isinstance(a, ast.For) and norm(a.iter) == "self.scope['headers']"]
    if loops:
        loop = loops[0]
        path = [c] + list(ancestors(c))
        path = path[: [i for i, a in enumerate(path) if a is loop][0] + 1]

        def rebuild(node):
            # keep only the control skeleton that leads to c; the emission becomes `return True`
            if isinstance(node, ast.If):
                new = ast.If(test=node.test, body=block(node.body), orelse=block(node.orelse))
                return new
            if isinstance(node, ast.For):
                return ast.For(target=node.target, iter=node.iter, body=block(node.body), orelse=[])
            return None

        def block(stmts):
            out = []
            for st in stmts:
                if any(st is a for a in path):
                    if isinstance(st, (ast.If, ast.For)):
                        out.append(rebuild(st))
                    else:
                        out.append(ast.Return(value=ast.Constant(value=True)))
                        return out
                elif isinstance(st, ast.If) and not any(isinstance(x, (ast.Await, ast.Call)) for x in ast.walk(st) if not isinstance(x, ast.If)):
                    out.append(st)
                elif isinstance(st, (ast.Break, ast.Continue)):
                    out.append(st)
            return out or [ast.Pass()]

        fn = ast.FunctionDef(name="p", args=ast.arguments(posonlyargs=[], args=[], kwonlyargs=[], kw_defaults=[], defaults=[]), body=[rebuild(loop), ast.Return(value=ast.Constant(value=False))], decorator_list=[])
        ast.fix_missing_locations(fn)
        return lambda sample: eval_function(fn, env(sample))
    func = enclosing_func(c)
    cls = [a for a in ancestors(c) if isinstance(a, ast.ClassDef)]
    for test, pol in guards(c):
        for sub in ast.walk(test):
            if isinstance(sub, ast.Call) and isinstance(sub.func, ast.Attribute) and norm(sub.func.value) == "self" and not sub.args and not sub.keywords and cls:
                meth = [m for m in cls[0].body if isinstance(m, (ast.FunctionDef, ast.AsyncFunctionDef)) and m.name == sub.func.attr]
                if meth and "headers" in norm(meth[0]) and pol:
                    return lambda sample, m=meth[0]: eval_function(m, env(sample))
        if "self.scope['headers']" in norm(test):
            return lambda sample, t=test, p=pol: bool(eval_expr(t, env(sample))) == p
    return None


def run(ctx: Ctx) -> None:
    if getattr(ctx, "_depth", 0) >= 2:
        return  # alias of an alias: not followed (breaks import cycles between rule modules)
    repo = ctx.repo
    ctx.rule("C02.R2", "suppress_body(method, status) is true exactly for HEAD, 1xx, 204 and 304 (table over status 100..599 x {HEAD, GET, POST})", floor=1)
    ctx.rule("C02.R3", "every response Body emission is guarded by `not suppress_body(<request method>, <response status>)` with exactly those arguments", floor=2)
    ctx.rule("C02.R4", "header order handed to the library: [:status] ++ application headers ++ config.response_headers(<protocol>) [++ connection: close]", floor=3)
    ctx.rule("C02.R5", "trailers (and the trailer-only response) are emitted only for http_version in TRAILERS_VERSIONS = {'2','3'} and when the request carried te: trailers", floor=4)
    ctx.rule("C02.R6", "HTTP/1: status >= 200 -> h11.Response, below -> h11.InformationalResponse; events map one-to-one onto h11/h2 operations with their own payload", floor=7)
    ctx.rule("C02.R7", "ASGI -> event provenance: status <- int(response['status']), headers <- validated response headers, body chunk <- bytes(message body), end of response when more_body is false (once)", floor=6)
    ctx.rule("C02.R8", "HTTP/2 serialisation is live and ordered (same analysis as C09: payload/length provenance, wake-up pairing, END_STREAM once, window updates)", floor=1)
    ctx.rule("C02.R9", "HTTP/2 trailers are sent with end_stream=True (h2 refuses trailers without END_STREAM; the ProtocolError is swallowed and the trailers are lost)", floor=1)

    # R2
    sb = repo.func("utils", "suppress_body")
    bad = None
    try:
        for method in ("HEAD", "GET", "POST"):
            for status in range(100, 600):
                got = bool(eval_function(sb, {"method": method, "status_code": status}))
                want = method == "HEAD" or 100 <= status < 200 or status in (204, 304)
                if got != want:
                    bad = (method, status, got)
                    raise StopIteration
    except StopIteration:
        pass
    except Unknown as u:
        bad = ("unsupported", str(u), None)
    ctx.check("C02.R2", "utils:suppress_body", "body omitted iff HEAD / 1xx / 204 / 304", bad is None, f"suppress_body{bad[:2] if bad else ''} = {bad[2] if bad else ''}: bodies must be omitted exactly for HEAD requests and 1xx/204/304 statuses", sb, sample={"domain": "3 methods x 500 statuses", "evaluated": 1500})
    params = [a.arg for a in sb.args.args]
    ctx.check("C02.R2", "utils:suppress_body", "signature (method, status_code)", params == ["method", "status_code"], f"parameters: {params}", sb)

    # R3
    aps = repo.func("protocol.http_stream", "HTTPStream.app_send")
    w = "protocol.http_stream:HTTPStream.app_send"
    bodies = [c for c in calls(aps) if call_name(c) == "Body"]
    ctx.need(len(bodies) >= 1, f"{w}: no Body emission")
    for b in bodies:
        ga = guard_atoms(b)
        ok = ("suppress_body(self.scope['method'], int(self.response['status']))", False) in ga
        ctx.check("C02.R3", w, "Body guarded by not suppress_body(scope method, response status)", ok, f"Body emitted under {sorted(a for a in ga if 'suppress' in a[0])}", b)
    rej = repo.func("protocol.ws_stream", "WSStream._send_rejection")
    wr = "protocol.ws_stream:WSStream._send_rejection"
    bodies = [c for c in calls(rej) if call_name(c) == "Body"]
    sup = [n for n in walk_local(rej) if isinstance(n, ast.Assign) and dotted(n.targets[0]) == "body_suppressed"]
    ok = len(bodies) == 1 and len(sup) == 1 and norm(sup[0].value) in ("suppress_body('GET', self.response['status'])", "suppress_body('GET', int(self.response['status']))") and ("body_suppressed", False) in guard_atoms(bodies[0])
    ctx.check("C02.R3", wr, "rejection Body guarded by not suppress_body('GET', response status)", ok, "the websocket denial response must omit bodies like any GET response", bodies[0] if bodies else rej)

    # R4 / R6 h11
    M11 = "protocol.h11"
    ss = repo.func(M11, "H11Protocol.stream_send")
    w11 = f"{M11}:H11Protocol.stream_send"
    resp = [c for c in calls(ss) if call_name(c) == "h11.Response"]
    info = [c for c in calls(ss) if call_name(c) == "h11.InformationalResponse"]
    ok = len(resp) == 1 and len(info) == 1
    ctx.need(ok, f"{w11}: expected one h11.Response and one h11.InformationalResponse")
    hexpr = kwarg(resp[0], "headers")
    if isinstance(hexpr, ast.Name):
        defs = [n for n in walk_local(ss) if isinstance(n, ast.Assign) and dotted(n.targets[0]) == hexpr.id]
        terms = seq_terms(defs[0].value) if len(defs) == 1 else ["?"]
    else:
        terms = seq_terms(hexpr)
    ctx.check("C02.R4", w11, "final response: event.headers ++ response_headers('h11')", terms == ["event.headers", "self.config.response_headers('h11')"], f"header sequence: {terms}", resp[0])
    terms = seq_terms(kwarg(info[0], "headers"))
    ctx.check("C02.R4", w11, "1xx response: event.headers ++ response_headers('h11')", terms == ["event.headers", "self.config.response_headers('h11')"], f"header sequence: {terms}", info[0])
    ok = ("event.status_code >= 200", True) in guard_atoms(resp[0]) and ("event.status_code >= 200", False) in guard_atoms(info[0]) and norm(kwarg(resp[0], "status_code")) == "event.status_code" and norm(kwarg(info[0], "status_code")) == "event.status_code"
    ctx.check("C02.R6", w11, "status >= 200 -> h11.Response else InformationalResponse, status passed through", ok, "1xx statuses must be sent as informational responses and final ones as responses", ss)
    for ev, wantc in (("Body", "h11.Data(data=event.data)"), ("EndBody", "h11.EndOfMessage()")):
        arms = [n for n in walk_local(ss) if isinstance(n, ast.If) and norm(n.test) == f"isinstance(event, {ev})"]
        ok = len(arms) == 1
        if ok:
            cs = find_in(arms[0].body, "self._send_h11_event")
            ok = len(cs) == 1 and norm(arg(cs[0], 0)) == wantc and len(arms[0].body) == 1
        ctx.check("C02.R6", w11, f"{ev} -> _send_h11_event({wantc})", ok, f"{ev} must map to exactly {wantc}", arms[0] if arms else ss)
    arms = [n for n in walk_local(ss) if isinstance(n, ast.If) and norm(n.test) == "isinstance(event, Data)"]
    ok = len(arms) == 1 and [norm(s) for s in arms[0].body] == ["await self.send(RawData(data=event.data))"]
    ctx.check("C02.R6", w11, "Data -> send(RawData(data=event.data))", ok, "websocket frames must pass through unmodified", arms[0] if arms else ss)
    she = repo.func(M11, "H11Protocol._send_h11_event")
    cs = find_calls(she, "self.connection.send")
    sd = [c for c in calls(she) if call_name(c) == "self.send"]
    ok = len(cs) == 1 and norm(arg(cs[0], 0)) == "event" and len(sd) == 1 and norm(arg(sd[0], 0)) == "RawData(data=data)" and "send()" in provenance(ast.Name(id="data", ctx=ast.Load()), she).ops
    ctx.check("C02.R6", f"{M11}:H11Protocol._send_h11_event", "send(RawData(connection.send(event)))", ok, "serialised bytes must be forwarded unmodified", she)

    # R4 / R6 h2
    M2 = "protocol.h2"
    s2 = repo.func(M2, "H2Protocol.stream_send")
    w2 = f"{M2}:H2Protocol.stream_send"
    arm = arm_for(s2, "event", "Response")
    ctx.need(arm is not None, f"{w2}: no Response arm")
    sh = find_in(arm.body, "self.connection.send_headers")
    ok = len(sh) == 1 and norm(arg(sh[0], 0)) == "event.stream_id"
    terms = seq_terms(arg(sh[0], 1, "headers")) if sh else []
    ctx.check("C02.R4", w2, "[:status] ++ event.headers ++ response_headers('h2')", ok and terms == ["[(b':status', b'%d' % event.status_code)]", "event.headers", "self.config.response_headers('h2')"], f"header sequence: {terms}", sh[0] if sh else arm)
    ok = bool(sh) and not any(k.arg == "end_stream" and norm(k.value) == "True" for k in sh[0].keywords)
    ctx.check("C02.R6", w2, "response headers do not end the stream", ok, "END_STREAM on the response HEADERS would cut off the body", sh[0] if sh else arm)
    # push / trailers
    arm_t = arm_for(s2, "event", "Trailers")
    st = find_in(arm_t.body, "self.connection.send_headers") if arm_t is not None else []
    ok = len(st) == 1 and norm(arg(st[0], 0)) == "event.stream_id" and norm(arg(st[0], 1, "headers")) == "event.headers"
    ctx.check("C02.R6", w2, "Trailers -> send_headers(event.stream_id, event.headers)", ok, "trailers must be sent on their stream", st[0] if st else s2)
    ok = bool(st) and any(k.arg == "end_stream" and norm(k.value) == "True" for k in st[0].keywords)
    ctx.check("C02.R9", w2, "send_headers(trailers, end_stream=True)", ok, "h2 raises ProtocolError('Trailers must have END_STREAM set.') for trailers sent without end_stream=True; stream_send swallows it, so trailers never reach an HTTP/2 client", st[0] if st else s2)

    # R5
    consts = {}
    for s in repo.module("protocol.http_stream").tree.body:
        if isinstance(s, ast.Assign) and isinstance(s.targets[0], ast.Name):
            try:
                consts[s.targets[0].id] = eval_expr(s.value, {})
            except Unknown:
                pass
    tv = consts.get("TRAILERS_VERSIONS")
    ctx.check("C02.R5", "protocol.http_stream:TRAILERS_VERSIONS", "== {'2','3'}", tv == {"2", "3"}, f"TRAILERS_VERSIONS = {tv!r}: trailers must never be attempted on HTTP/1.x", None)
    trs = [c for c in calls(aps) if call_name(c) == "Trailers"]
    tresp = [c for c in calls(aps) if call_name(c) == "Response" and norm(kwarg(c, "status_code")) == "200"]
    samples = [[], [(b"te", b"trailers")], [(b"te", b"gzip")], [(b"x", b"trailers")], [(b"a", b"b"), (b"te", b"trailers")], [(b"te", b"gzip"), (b"trailers", b"te")], [(b"te", b"trailers"), (b"te", b"gzip")]]
    for c in trs + tresp:
        ga = guard_atoms(c)
        ok = {("self.scope['http_version'] in TRAILERS_VERSIONS", True), ("message['type'] == 'http.response.trailers'", True)} <= ga
        pred = _te_predicate(repo, c)
        bad = None
        if pred is None:
            ok = False
        else:
            for smp in samples:
                try:
                    got = bool(pred(smp))
                except Exception as error:  # Unknown / unsupported construct
                    got = f"not evaluable ({error})"
                if got != any(n == b"te" and v == b"trailers" for n, v in smp):
                    bad = (smp, got)
                    ok = False
                    break
        ctx.check("C02.R5", w, f"{call_name(c)} for trailers guarded by version and te: trailers", ok, f"emitted under {sorted(ga)}" + (f"; the header test gives {bad[1]} for request headers {bad[0]}" if bad else ("" if pred else "; no test of the request's te header found")), c)
    ctx.need(len(trs) == 1 and len(tresp) == 1, f"{w}: expected one Trailers and one trailer-only Response emission")
    ext = [n for n in walk_local(repo.func("protocol.http_stream", "HTTPStream.handle")) if isinstance(n, ast.Assign) and "http.response.trailers" in norm(n.targets[0])]
    ok = len(ext) == 1 and ("event.http_version in TRAILERS_VERSIONS", True) in guard_atoms(ext[0])
    ctx.check("C02.R5", "protocol.http_stream:HTTPStream.handle", "trailers extension advertised only for TRAILERS_VERSIONS", ok, "the scope must not offer trailers on HTTP/1.x", ext[0] if ext else None)

    # R7
    rs = [c for c in calls(aps) if call_name(c) == "Response" and ("message['type'] == 'http.response.start'", True) in guard_atoms(c)]
    ok = len(rs) == 1 and norm(kwarg(rs[0], "status_code")) == "int(self.response['status'])" and norm(kwarg(rs[0], "stream_id")) == "self.stream_id"
    hp = provenance(kwarg(rs[0], "headers"), aps) if rs else None
    ok = ok and "build_and_validate_headers()" in hp.ops and "self.response.get" not in hp.ops and ("self.response" in hp.leaves or "message" in hp.leaves)
    resp_asg = [n for n in walk_local(aps) if isinstance(n, ast.Assign) and dotted(n.targets[0]) == "self.response" and norm(n.value) == "message" and ("message['type'] == 'http.response.start'", True) in guard_atoms(n)]
    ok = ok and len(resp_asg) == 1
    ctx.check("C02.R7", w, "Response(status_code=int(response['status']), headers=validated response headers)", ok, f"response head built from {hp}", rs[0] if rs else aps)
    hdef = [n for n in walk_local(aps) if isinstance(n, ast.Assign) and dotted(n.targets[0]) == "headers" and ("message['type'] == 'http.response.start'", True) in guard_atoms(n)]
    ok = len(hdef) == 1 and norm(hdef[0].value) == "build_and_validate_headers(self.response.get('headers', []))"
    ctx.check("C02.R7", w, "headers = build_and_validate_headers(response.get('headers', []))", ok, f"headers defined as {[norm(h.value) for h in hdef]}", hdef[0] if hdef else aps)
    bd = [c for c in calls(aps) if call_name(c) == "Body"]
    ok = len(bd) == 1 and norm(kwarg(bd[0], "data")) == "bytes(message.get('body', b''))" and norm(kwarg(bd[0], "stream_id")) == "self.stream_id"
    ctx.check("C02.R7", w, "Body(data=bytes(message.get('body', b'')))", ok, "body chunks must be forwarded unmodified", bd[0] if bd else aps)
    ga = guard_atoms(bd[0]) if bd else set()
    ok = {("message.get('body', b'') != b''", True), ("message['type'] == 'http.response.body'", True), ("self.state == ASGIHTTPState.RESPONSE", True)} <= ga
    ctx.check("C02.R7", w, "empty chunks skipped, body only in RESPONSE state", ok, f"Body guards: {sorted(ga)}", bd[0] if bd else aps)
    scs = [c for c in find_calls(aps, "self._send_closed") if {("message['type'] == 'http.response.body'", True), ("self.state == ASGIHTTPState.RESPONSE", True)} <= guard_atoms(c)]
    ok = len(scs) == 1 and ("message.get('more_body', False)", False) in guard_atoms(scs[0])
    ctx.check("C02.R7", w, "end of response when more_body is false", ok, "the response must end exactly when the application says there is no more body", scs[0] if scs else aps)
    sc = repo.func("protocol.http_stream", "HTTPStream._send_closed")
    seq = [norm(s) for s in sc.body]
    ok = seq[:1] == ["await self.send(EndBody(stream_id=self.stream_id))"] and seq[-1:] == ["await self.send(StreamClosed(stream_id=self.stream_id))"] and "self.state = ASGIHTTPState.CLOSED" in seq
    ctx.check("C02.R7", "protocol.http_stream:HTTPStream._send_closed", "EndBody ... state CLOSED ... StreamClosed", ok, f"_send_closed body: {seq}", sc)
    srj = [c for c in calls(rej) if call_name(c) == "Response"]
    from ..astq import expand_locals

    ok = len(srj) == 1 and norm(kwarg(srj[0], "status_code")) == "int(self.response['status'])" and norm(expand_locals(kwarg(srj[0], "headers"), rej)) == "build_and_validate_headers(self.response['headers'])"
    ctx.check("C02.R7", wr, "denial Response(status <- response.start, validated headers)", ok, "the websocket HTTP-response extension must render exactly the given response", srj[0] if srj else rej)

    # R8
    from . import c09

    c09.run(Alias(ctx, "C02.R8", "HTTP/2 serialisation: DATA payload/length provenance, unblock->wake-up, END_STREAM once after completion, window updates reach the send task; the send task decides to park a stream from the state of its buffer at that moment, not from an observation made before an await (C09.R1/R2/R3/R5/R6/R9)", only={"C09.R1", "C09.R2", "C09.R3", "C09.R5", "C09.R6", "C09.R9"}))

    from . import c08, c19

    c08.run(Alias(ctx, "C02.R10", "serialised bytes are written to the transport and drained under the send lock in both workers (C08.R5); on HTTP/2 the end of the body waits until the stream's buffer - and with it END_STREAM - has been sent (C08.R6)", only={"C08.R5", "C08.R6"}))
    from . import c18

    c18.run(Alias(ctx, "C02.R12", "HTTP/2: the connection is closed for the request maximum only when it is strictly exceeded - closing it on the last permitted request discards that request's response and every response still in flight (C18.R2 on H2Protocol._handle_events)", only={"C18.R2"}, where=["H2Protocol._handle_events"]))
    from . import c07, c12

    c07.run(Alias(ctx, "C02.R14", "the keep-alive timer cannot fire in the middle of a response: the single-task helpers replace / cancel the timer atomically under their lock (C07.R8)", only={"C07.R8"}))
    c12.run(Alias(ctx, "C02.R13", "application headers reach the wire exactly as given, whatever iterable carries them: the validator is interpreted on lists AND one-shot iterators (C12.R5)", only={"C12.R5"}))
    c19.run(Alias(ctx, "C02.R7b", "the server's own headers are date (RFC 7231 date of now), server and alt-svc, exactly under their switches, in that order (C19.R6)", only={"C19.R6"}))
    ctx.assume("not decided: that h11/h2 serialise those events into bytes a client parses back identically; chunked vs content-length framing chosen inside h11; byte-level flow control (C09)")
    from . import typestate_rules

    typestate_rules.run_for(ctx, "C02")
