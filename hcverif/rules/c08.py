"""C08 — send backpressure applied, bounded, and always released (structural clauses)."""
from __future__ import annotations

import ast
from typing import List, Optional, Set

from ..astq import ancestors, arg, call_name, calls, dotted, find_calls, guard_atoms, guards, norm, provenance, walk_local
from ..cfg import CFG
from ..core import Ctx
from ..pred import Unknown, eval_expr
from .common import arm_for, explain, find_in, has_call, has_stmt

M = "protocol.h2"


def _module_consts(ctx: Ctx, module: str) -> dict:
    env = {}
    for s in ctx.repo.module(module).tree.body:
        if isinstance(s, ast.Assign) and len(s.targets) == 1 and isinstance(s.targets[0], ast.Name):
            try:
                env[s.targets[0].id] = eval_expr(s.value, env)
            except Unknown:
                pass
    return env


def _cmp_len_buffer(test: ast.AST, pol: bool, env: dict):
    """Classify a guard as a threshold on len(self.buffer): returns (kind, measured, threshold)."""
    if isinstance(test, ast.Compare) and len(test.ops) == 1:
        l, r = test.left, test.comparators[0]
        return (type(test.ops[0]).__name__, norm(l), norm(r))
    return None


def handler_classes(h: ast.ExceptHandler) -> Set[str]:
    if h.type is None:
        return {"BaseException"}
    ts = h.type.elts if isinstance(h.type, ast.Tuple) else [h.type]
    return {norm(t).split(".")[-1] for t in ts}


def run(ctx: Ctx) -> None:
    if getattr(ctx, "_depth", 0) >= 2:
        return  # alias of an alias: not followed (breaks import cycles between rule modules)
    repo = ctx.repo
    ctx.rule("C08.R1", "push: after appending, the sender waits on _paused when len(buffer) >= BUFFER_HIGH_WATER (a positive module constant), then clears it; pushes after completion raise", floor=4)
    ctx.rule("C08.R2", "a paused sender is released (outside close()) only when the data REMAINING in the buffer is below the low-water mark", floor=1)
    ctx.rule("C08.R3", "close() marks complete, empties the buffer and sets both events", floor=1)
    ctx.rule("C08.R4", "terminal release: handle(Closed) closes every remaining buffer; _send_data's handler (StreamClosedError/ProtocolError/KeyError) closes, deletes and removes the stream", floor=3)
    ctx.rule("C08.R5", "transport backpressure: protocol_send(RawData) writes and drains under the send lock; a failed write reports Closed to the protocol (both workers)", floor=4)
    ctx.rule("C08.R6", "end of body: set_complete, unblock + wake the send task, then drain(); drain waits for _is_empty which pop sets when the buffer empties and push clears", floor=4)
    ctx.rule("C08.R7", "the application receive queue is bounded by config.max_app_queue_size (both workers)", floor=2)
    ctx.rule("C08.R8", "every event handed to a send callback inside protocol/stream code is awaited (an application send returns only after the lower layer accepted the data)", floor=30)

    env = _module_consts(ctx, M)
    hw, lw = env.get("BUFFER_HIGH_WATER"), env.get("BUFFER_LOW_WATER")
    ok = isinstance(hw, (int, float)) and isinstance(lw, (int, float)) and 0 < lw <= hw <= 2**20
    ctx.check("C08.R1", f"{M}:BUFFER_HIGH_WATER", "0 < LOW <= HIGH <= 1 MiB constants", ok, f"BUFFER_HIGH_WATER={hw!r} BUFFER_LOW_WATER={lw!r}", None)

    push = repo.func(M, "StreamBuffer.push")
    wp = f"{M}:StreamBuffer.push"
    waits = find_calls(push, "self._paused.wait")
    ok = len(waits) == 1
    detail = ""
    if ok:
        gs = guards(waits[0])
        # evaluate the guard as a function of len(buffer): true iff len >= HIGH
        try:
            for n in (0, 1, int(hw) - 1, int(hw), int(hw) + 1, 10 * int(hw)):
                val = all(bool(eval_expr(t, {**env, "self.buffer": b"x" * n, "self._complete": False})) == p for t, p in gs)
                if val != (n >= hw):
                    ok = False
                    detail = f"with len(buffer)={n} the wait is {'taken' if val else 'skipped'}"
        except Unknown as u:
            ok = False
            detail = f"guard not a function of len(self.buffer): {u}"
    ctx.check("C08.R1", wp, "wait on _paused iff len(buffer) >= HIGH", ok, detail or "push must have exactly one _paused.wait()", waits[0] if waits else push)
    g = CFG(push)
    ext = g.where(has_call("self.buffer.extend"))
    wn = g.where(has_call("self._paused.wait"))
    ok = bool(ext) and bool(wn) and g.dominates(has_call("self.buffer.extend"), wn[0])
    ctx.check("C08.R1", wp, "append before the high-water test", ok, "the chunk must be appended before the high-water test", push)
    ok = bool(wn) and g.must_pass(wn[0], [g.exit], has_call("self._paused.clear"), skip_labels=("exc",)) is None
    ctx.check("C08.R1", wp, "wait -> clear", ok, "_paused must be cleared after a wake-up or the next push never blocks", push)
    rs = [n for n in walk_local(push) if isinstance(n, ast.Raise)]
    ok = len(rs) == 1 and ("self._complete", True) in guard_atoms(rs[0]) and "BufferCompleteError" in norm(rs[0])
    if ok:
        ok = g.dominates(lambda n: n.kind == "test" and norm(n.ast.test) == "self._complete", ext[0]) if ext else False
    ctx.check("C08.R1", wp, "push on a completed buffer raises before appending", ok, "data pushed after close()/completion must be refused, not buffered", push)

    # R2
    pop = repo.func(M, "StreamBuffer.pop")
    wpop = f"{M}:StreamBuffer.pop"
    sets = find_calls(pop, "self._paused.set")
    ctx.need(len(sets) >= 1, "StreamBuffer.pop never sets _paused")
    dels = [n for n in walk_local(pop) if isinstance(n, ast.Delete)]
    for c in sets:
        gs = guards(c)
        measured_ok = False
        text = " and ".join(("" if p else "not ") + norm(t) for t, p in gs)
        for t, p in gs:
            if isinstance(t, ast.Compare) and len(t.ops) == 1:
                sides = [t.left, t.comparators[0]]
                for side in sides:
                    if isinstance(side, ast.Call) and dotted(side.func) == "len" and norm(side.args[0]) == "self.buffer":
                        measured_ok = True
        # and the test must come after the removal
        after = bool(dels) and all(d.lineno < c.lineno for d in dels)
        ctx.check("C08.R2", wpop, f"_paused.set() under [{text}]", measured_ok and after,
                  "the sender is released according to the size of the chunk just popped, not the data remaining: an empty pop at a closed window releases the sender every time, so the buffered data is unbounded", c)

    # R3
    close = repo.func(M, "StreamBuffer.close")
    src = [norm(s) for s in close.body]
    ok = (
        any(s == "self._complete = True" for s in src)
        and any(s == "self.buffer = bytearray()" or s == "self.buffer.clear()" for s in src)
        and len(find_calls(close, "self._is_empty.set")) == 1
        and len(find_calls(close, "self._paused.set")) == 1
        and not any(guard_atoms(c) for c in find_calls(close, "self._is_empty.set", "self._paused.set"))
    )
    ctx.check("C08.R3", f"{M}:StreamBuffer.close", "complete, emptied, both events set", ok, f"close() body: {src}", close)

    # R4
    hd = repo.func(M, "H2Protocol.handle")
    arm = arm_for(hd, "event", "Closed")
    ctx.need(arm is not None, "H2Protocol.handle has no Closed arm")
    closes = [c for c in calls(arm) if isinstance(c.func, ast.Attribute) and c.func.attr == "close" and any(isinstance(a, (ast.For, ast.AsyncFor)) for a in ancestors(c))]
    ok = False
    for c in closes:
        loop = [a for a in ancestors(c) if isinstance(a, (ast.For, ast.AsyncFor))][0]
        p = provenance(loop.iter, hd)
        recv = provenance(c.func.value, hd)
        if "self.stream_buffers" in p.leaves and ("self.stream_buffers" in recv.leaves):
            extra = guard_atoms(c, stop=arm)
            ok = not {a for a in extra if a != (norm(arm.test), True)}
    ctx.check("C08.R4", f"{M}:H2Protocol.handle", "Closed -> close() every stream buffer", ok, "when the connection closes, sends blocked in push()/drain() are never released (no buffer is closed)", arm)
    ok = any(norm(s) == "self.closed = True" for s in arm.body) and len(find_in(arm.body, "self.has_data.set")) >= 1
    ctx.check("C08.R4", f"{M}:H2Protocol.handle", "Closed -> closed flag + wake the send task", ok, "the send task must observe the closed flag", arm)
    sd = repo.func(M, "H2Protocol._send_data")
    trys = [n for n in walk_local(sd) if isinstance(n, ast.Try)]
    ok = False
    if trys:
        for h in trys[0].handlers:
            cl = handler_classes(h)
            if {"StreamClosedError", "KeyError", "ProtocolError"} <= cl or {"KeyError", "ProtocolError"} <= cl:
                body = [norm(s) for s in h.body]
                ok = (
                    any("self.stream_buffers[stream_id].close()" in b for b in body)
                    and any(b == "del self.stream_buffers[stream_id]" for b in body)
                    and any("self.priority.remove_stream(stream_id)" in b for b in body)
                )
        # the handler must cover every h2 call in the try body
        covered = all(any(c in ast.walk(trys[0]) for _ in [0]) for c in find_calls(sd, "self.connection.local_flow_control_window", "self.connection.send_data", "self.connection.end_stream"))
        ok = ok and covered and all(_inside(c, trys[0].body) for c in find_calls(sd, "self.connection.local_flow_control_window", "self.connection.send_data", "self.connection.end_stream"))
    ctx.check("C08.R4", f"{M}:H2Protocol._send_data", "stream gone -> close buffer, delete, remove from tree", ok, "a reset/closed stream's buffer must be force-closed so its blocked sender returns", sd)

    # R5
    for mod, write_calls, drain_call, classes in (
        ("asyncio.tcp_server", ["self.writer.write"], "self.writer.drain", {"ConnectionError", "RuntimeError"}),
        ("trio.tcp_server", ["self.stream.send_all"], "self.stream.send_all", {"BrokenResourceError", "ClosedResourceError"}),
    ):
        fn = repo.func(mod, "TCPServer.protocol_send")
        w = f"{mod}:TCPServer.protocol_send"
        arm = arm_for(fn, "event", "RawData")
        ctx.need(arm is not None, f"{w}: no RawData arm")
        ws = find_in(arm.body, *write_calls)
        ds = find_in(arm.body, drain_call)
        ok = len(ws) == 1 and len(ds) == 1 and norm(arg(ws[0], 0)) == "event.data"
        locked = ok and all(any(isinstance(a, ast.AsyncWith) and any(norm(i.context_expr) == "self.send_lock" for i in a.items) for a in ancestors(c)) for c in ws + ds)
        awaited = ok and isinstance(getattr(ds[0], "_parent", None), ast.Await)
        g = CFG(fn)
        seq = True
        if ok and write_calls[0] != drain_call:
            wn = g.where(has_call(write_calls[0]))
            seq = bool(wn) and g.must_pass(wn[0], [g.exit], has_call(drain_call), skip_labels=("exc", "catch", "uncaught")) is None
        ctx.check("C08.R5", w, "write(event.data) then awaited drain, under send_lock", bool(ok and locked and awaited and seq), "RawData must be written and drained under the send lock so a paused transport blocks the sender", arm)
        hs = [h for t in walk_local(fn) if isinstance(t, ast.Try) for h in t.handlers if any(_inside(c, t.body) for c in ws)]
        got = set().union(*[handler_classes(h) for h in hs]) if hs else set()
        okh = classes <= got and all(any(call_name(c) == "self.protocol.handle" and c.args and "Closed()" in norm(c.args[0]) for c in calls(h)) for h in hs)
        ctx.check("C08.R5", w, f"write failure ({'/'.join(sorted(classes))}) -> protocol.handle(Closed())", bool(hs) and okh, f"handlers catch {sorted(got)}; a failed/closed transport must be reported to the protocol instead of raising into the application", hs[0] if hs else arm)

    he = repo.func(M, "H2Protocol._handle_events")
    arm = arm_for(he, "event", "StreamReset")
    ctx.need(arm is not None, "_handle_events: no StreamReset arm")
    cl = [c for c in body_calls_(arm.body) if isinstance(c.func, ast.Attribute) and c.func.attr == "close" and norm(c.func.value) == "self.stream_buffers[event.stream_id]"]
    ok = len(cl) == 1 and isinstance(getattr(cl[0], "_parent", None), ast.Await)
    if ok:
        extra = {a for a in guard_atoms(cl[0], stop=arm) if a != (norm(arm.test), True)}
        ok = extra <= {("event.stream_id in self.stream_buffers", True)}
    ctx.check("C08.R4", f"{M}:H2Protocol._handle_events", "StreamReset -> close() the stream's buffer", ok,
              "a reset stream whose window is exhausted never makes h2 raise (chunk size 0, nothing sent), so its buffer is never force-closed and the application's blocked send waits until the whole connection closes", arm)

    # R4 (cont.): the reader reports the end of the connection to the protocol on every exit
    for mod in ("asyncio.tcp_server", "trio.tcp_server"):
        rdf = repo.func(mod, "TCPServer._read_data")
        grd = CFG(rdf)
        closed_call = has_stmt(lambda n: isinstance(n, ast.Call) and call_name(n) == "self.protocol.handle" and n.args and "Closed()" in norm(n.args[0]))
        wit = grd.must_pass(grd.entry, [grd.exit], closed_call)
        ctx.check("C08.R4", f"{mod}:TCPServer._read_data", "every normal exit of the read loop tells the protocol Closed", wit is None, "the read loop can end (e.g. on a connection reset) without protocol.handle(Closed()): sends waiting on flow control are never released: " + explain(grd, wit), rdf)

    # R6
    ss = repo.func(M, "H2Protocol.stream_send")
    arm = arm_for(ss, "event", "EndBody")
    ctx.need(arm is not None, "stream_send has no EndBody arm")
    g = CFG(ss)
    scn = g.where(has_call("self.stream_buffers[].set_complete"))
    ok = bool(scn)
    wit = None
    if ok:
        for need in ("self.priority.unblock", "self.has_data.set", "self.stream_buffers[].drain"):
            wit = g.must_pass(scn[0], [g.exit], has_call(need), skip_labels=("exc", "catch", "uncaught"))
            if wit is not None:
                ok = False
                break
    ctx.check("C08.R6", f"{M}:H2Protocol.stream_send", "EndBody: set_complete -> unblock -> has_data.set -> drain", ok, "end of body must wake the send task and wait for the buffer to drain: " + explain(g, wit), arm)
    dr = repo.func(M, "StreamBuffer.drain")
    ok = len(find_calls(dr, "self._is_empty.wait")) == 1 and all(isinstance(getattr(c, "_parent", None), ast.Await) for c in find_calls(dr, "self._is_empty.wait"))
    ctx.check("C08.R6", f"{M}:StreamBuffer.drain", "await _is_empty.wait()", ok, "drain must wait for the buffer to empty", dr)
    es = find_calls(pop, "self._is_empty.set")
    ok = len(es) == 1
    if ok:
        try:
            ok = all(bool(eval_expr(t, {"self.buffer": b""})) == p for t, p in guards(es[0])) and not all(bool(eval_expr(t, {"self.buffer": b"x"})) == p for t, p in guards(es[0]))
        except Unknown:
            ok = False
    ok = ok and bool(dels) and all(d.lineno < es[0].lineno for d in dels)
    ctx.check("C08.R6", wpop, "_is_empty.set() iff the buffer is empty after removal", ok, "drain() is released exactly when everything was popped", es[0] if es else pop)
    ec = find_calls(push, "self._is_empty.clear")
    ok = len(ec) == 1 and not (guard_atoms(ec[0]) - {("self._complete", False)})
    ctx.check("C08.R6", wp, "push clears _is_empty", ok, "a drain after new data must wait again", push)

    # R7
    for mod in ("asyncio.task_group", "trio.task_group"):
        fn = repo.func(mod, "TaskGroup.spawn_app")
        qs = [c for c in calls(fn) if (call_name(c) in ("asyncio.Queue",)) or "open_memory_channel" in norm(c.func)]
        ok = len(qs) == 1 and len(qs[0].args) >= 1 and norm(qs[0].args[0]) == "config.max_app_queue_size"
        ctx.check("C08.R7", f"{mod}:TaskGroup.spawn_app", "queue(config.max_app_queue_size)", ok, f"app queue constructed as {norm(qs[0]) if qs else 'missing'}", qs[0] if qs else fn)

    # R8
    n = 0
    for mod, cls in (("protocol.h11", "H11Protocol"), ("protocol.h2", "H2Protocol"), ("protocol.http_stream", "HTTPStream"), ("protocol.ws_stream", "WSStream"), ("protocol", "ProtocolWrapper")):
        for name, fn in repo.methods(mod, cls).items():
            for c in calls(fn):
                d = call_name(c) or ""
                if d in ("self.send", "self.protocol.handle", "self.stream.handle", "self._send_h11_event", "self._send_wsproto_event", "self._flush", "self.app_put") or d.endswith(".push") and "stream_buffers" in norm(c.func) or d.endswith(".drain"):
                    n += 1
                    ctx.check("C08.R8", f"{mod}:{cls}.{name}", f"await {norm(c.func)}(..)@{_ord(fn, c)}", isinstance(getattr(c, "_parent", None), ast.Await), f"{norm(c)[:60]} is not awaited: the caller continues before the data was accepted", c)

    from ..core import Alias
    from . import c09

    ctx.rule("C08.R11", "the send lock serialises the writes of ONE connection: it is created per TCPServer instance (in __init__), never shared through the class or the module - otherwise one stalled client blocks the sends of every other connection", floor=2)
    for mod_, lock_ctor in (("asyncio.tcp_server", "asyncio.Lock"), ("trio.tcp_server", "trio.Lock")):
        cls_ = repo.cls(mod_, "TCPServer")
        ini_ = repo.func(mod_, "TCPServer.__init__")
        per_inst = [n for n in walk_local(ini_) if isinstance(n, ast.Assign) and dotted(n.targets[0]) == "self.send_lock" and isinstance(n.value, ast.Call) and call_name(n.value) == lock_ctor and not guard_atoms(n)]
        shared = [st for st in cls_.body if isinstance(st, (ast.Assign, ast.AnnAssign)) and dotted(st.targets[0] if isinstance(st, ast.Assign) else st.target) == "send_lock" and getattr(st, "value", None) is not None]
        shared += [st for st in repo.module(mod_).tree.body if isinstance(st, ast.Assign) and isinstance(st.value, ast.Call) and call_name(st.value) == lock_ctor]
        ctx.check("C08.R11", f"{mod_}:TCPServer", f"self.send_lock = {lock_ctor}() in __init__, no class/module level lock", len(per_inst) == 1 and not shared, "the send lock is shared between connections: a write waiting on one stalled client holds the lock, so no other connection of the worker can send", shared[0] if shared else ini_)
    c09.run(Alias(ctx, "C08.R9", "pressure abates => the waiting send is released: WINDOW_UPDATE (stream-level, connection-level stream 0, SETTINGS) and RST_STREAM reach unblock + wake-up, and the send task re-consults the tree (same analysis as C09.R3/R4/R6); the send task parks a stream only on an empty pop, so a waiting push is always released by the short / empty pop that follows (C09.R2)", only={"C09.R2", "C09.R3", "C09.R4", "C09.R6"}))

    from . import c17

    c17.run(Alias(ctx, "C08.R10", "WSGI applications run in a thread: their sends go through a bridge that waits for the event-loop send to complete, so backpressure reaches the application thread (C17.R2); chunks are forwarded one at a time as the iterable yields them - the adapter never drains the iterable ahead of the client (C17.R4)", only={"C17.R2", "C17.R4"}))

    ctx.assume("not decided: the numeric bound itself, fairness between streams, promptness of release; asyncio StreamWriter.drain / trio send_all semantics are trusted")
    ctx.assume("invariant used (exempt site): a stream unblocked in the priority tree always has an entry in stream_buffers, so the lookup inside _send_data's handler cannot raise")


def body_calls_(stmts):
    out = [n for s in stmts for n in ast.walk(s) if isinstance(n, ast.Call)]
    out.sort(key=lambda c: (c.lineno, c.col_offset))
    return out


def _inside(node: ast.AST, body) -> bool:
    return any(node is n for s in body for n in ast.walk(s))


def _ord(fn: ast.AST, call: ast.Call) -> int:
    """Ordinal of this call among calls with the same callee text in fn (stable under line shifts)."""
    same = [c for c in calls(fn) if norm(c.func) == norm(call.func)]
    return next(i for i, c in enumerate(same) if c is call)
