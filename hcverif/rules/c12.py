"""C12 — invalid application messages are rejected without corrupting the wire (structural clauses)."""
from __future__ import annotations

import ast
import itertools
from typing import Dict, List, Optional, Set, Tuple

from ..astq import ancestors, arg, call_name, calls, dotted, find_calls, guard_atoms, guards, kwarg, norm, provenance, walk_local
from ..cfg import CFG
from ..core import Alias, Ctx
from ..pred import Unknown, _Raised, eval_expr, eval_function
from .common import arm_for, explain, find_in, has_call, has_stmt

HTTP_STATES = ["REQUEST", "RESPONSE", "TRAILERS", "CLOSED"]
WS_STATES = ["HANDSHAKE", "CONNECTED", "RESPONSE", "CLOSED", "HTTPCLOSED"]

# reference automaton of the ASGI specification: message type -> states in which it is legal
HTTP_REF = {
    "http.response.start": {"REQUEST"},
    "http.response.body": {"RESPONSE"},
    "http.response.trailers": {"REQUEST", "TRAILERS"},  # REQUEST: trailer-only responses (hypercorn extension)
    "http.response.early_hint": {"REQUEST"},
    "http.response.push": {"REQUEST", "RESPONSE"},
    "not_a_real_type": set(),
}
WS_REF = {
    "websocket.accept": {"HANDSHAKE"},
    "websocket.http.response.start": {"HANDSHAKE"},
    "websocket.http.response.body": {"HANDSHAKE", "RESPONSE"},
    "websocket.send": {"CONNECTED"},
    "websocket.close": {"HANDSHAKE", "CONNECTED"},
    "not_a_real_type": set(),
}


def dispatch_chain(fn: ast.AST) -> Tuple[List[ast.If], Optional[List[ast.stmt]]]:
    """The if/elif chain over message['type'] inside app_send, and its final else body."""
    first = None
    for n in walk_local(fn):
        if isinstance(n, ast.If) and "message['type']" in norm(n.test) and not any(isinstance(a, ast.If) and "message['type']" in norm(a.test) and _in_orelse(n, a) for a in ancestors(n)):
            first = n
            break
    arms: List[ast.If] = []
    cur = first
    last_else = None
    while cur is not None:
        arms.append(cur)
        if len(cur.orelse) == 1 and isinstance(cur.orelse[0], ast.If):
            cur = cur.orelse[0]
        else:
            last_else = cur.orelse or None
            cur = None
    return arms, last_else


def _in_orelse(node: ast.AST, anc: ast.If) -> bool:
    return any(node is x for s in anc.orelse for x in ast.walk(s))


def accept_table(arms: List[ast.If], types: List[str], states: List[str], enum: str, versions: List[str]) -> Dict[Tuple[str, str, str], Optional[int]]:
    out: Dict[Tuple[str, str, str], Optional[int]] = {}
    for t, s, v in itertools.product(types, states, versions):
        env = {"message['type']": t, "self.state": s, "self.scope['http_version']": v}
        env.update({f"{enum}.{x}": x for x in states})
        env.update({"TRAILERS_VERSIONS": {"2", "3"}, "PUSH_VERSIONS": {"2", "3"}, "EARLY_HINTS_VERSIONS": {"2", "3"}})
        hit: Optional[int] = None
        for i, arm in enumerate(arms):
            if bool(eval_expr(arm.test, env)):
                hit = i
                break
        out[(t, s, v)] = hit
    return out


def run(ctx: Ctx) -> None:
    if getattr(ctx, "_depth", 0) >= 2:
        return  # alias of an alias: not followed (breaks import cycles between rule modules)
    repo = ctx.repo
    ctx.rule("C12.R1", "state-guarded dispatch: each (message type, state) pair is accepted exactly when the ASGI reference automaton allows it; everything else reaches the final `else: raise UnexpectedMessageError`", floor=40)
    ctx.rule("C12.R4", "every application-supplied header list that reaches a wire event (Response / InformationalResponse / Trailers / Request) passes through build_and_validate_headers", floor=6)
    ctx.rule("C12.R5", "build_and_validate_headers: rejects pseudo-header names (also after stripping), non-bytes names/values, and CR / LF / NUL in names or values; returns the pairs in order", floor=6)
    ctx.rule("C12.R6", "non-str push path / text frame raise TypeError before anything is emitted", floor=2)
    ctx.rule("C12.R7", "_send_h11_event re-raises h11.LocalProtocolError (an invalid application message) unless the peer has already errored", floor=1)

    # ---------------- R1
    for mod, cls, ref, states, enum in (
        ("protocol.http_stream", "HTTPStream", HTTP_REF, HTTP_STATES, "ASGIHTTPState"),
        ("protocol.ws_stream", "WSStream", WS_REF, WS_STATES, "ASGIWebsocketState"),
    ):
        fn = repo.func(mod, f"{cls}.app_send")
        w = f"{mod}:{cls}.app_send"
        arms, last_else = dispatch_chain(fn)
        ctx.need(len(arms) >= 5, f"{w}: message dispatch chain not found")
        ok = last_else is not None and len(last_else) == 1 and isinstance(last_else[0], ast.Raise) and "UnexpectedMessageError(self.state, message['type'])" in norm(last_else[0])
        ctx.check("C12.R1", w, "chain ends in else: raise UnexpectedMessageError(state, type)", ok, "an unknown or out-of-state message would be accepted silently", arms[-1])
        versions = ["2", "1.1"] if cls == "HTTPStream" else ["1.1"]
        try:
            table = accept_table(arms, list(ref), states, enum, versions)
        except Unknown as u:
            ctx.check("C12.R1", w, "dispatch table evaluable", False, f"dispatch test not evaluable: {u}", fn)
            table = {}
        for (t, s, v), hit in sorted(table.items()):
            legal = s in ref[t]
            if cls == "HTTPStream" and v == "1.1" and t in ("http.response.trailers", "http.response.early_hint", "http.response.push"):
                legal = False  # extensions not offered on HTTP/1.x
            accepted = hit is not None
            what = ""
            if accepted and not legal:
                what = f"{t} is accepted in state {s} (HTTP/{v}): the reference automaton rejects it there, so the application is not told and the message acts on a finished/unstarted response"
            elif legal and not accepted:
                what = f"{t} is rejected in state {s} (HTTP/{v}) although it is legal there"
            ctx.check("C12.R1", w, f"{t} in {s}" + (f" (HTTP/{v})" if cls == "HTTPStream" else ""), accepted == legal, what, arms[hit] if hit is not None else arms[-1])

    # ---------------- R4
    n4 = 0
    cfgs: dict = {}
    for mod, cls in (("protocol.http_stream", "HTTPStream"), ("protocol.ws_stream", "WSStream")):
        for name, fn in repo.methods(mod, cls).items():
            for c in calls(fn):
                if call_name(c) in ("Response", "InformationalResponse", "Trailers", "Request"):
                    h = kwarg(c, "headers")
                    if h is None:
                        continue
                    scope = None
                    for a in ancestors(c):
                        if isinstance(a, ast.If) and "message['type']" in norm(a.test):
                            scope = a.body if any(c is x for st in a.body for x in ast.walk(st)) else a.orelse
                            break
                    p = provenance(h, fn, scope=scope)
                    app_supplied = bool(p.leaves & {"message", "self.response"}) or any(l.startswith("message") for l in p.leaves)
                    if not app_supplied:
                        continue
                    n4 += 1
                    ok = "build_and_validate_headers()" in p.ops
                    if ok and not (isinstance(h, ast.Call) and call_name(h) == "build_and_validate_headers"):
                        # must-analysis: on EVERY path to the sink the list went through the validator
                        g4 = cfgs.setdefault(id(fn), CFG(fn))
                        sink = [n.id for n in g4.nodes if n.ast is not None and any(c is x for x in ast.walk(n.ast)) and n.kind != "test"] or [n.id for n in g4.nodes if n.ast is not None and any(c is x for x in ast.walk(n.ast))]
                        ok = bool(sink) and g4.dominates(has_call("build_and_validate_headers"), sink[-1], skip_labels=("exc", "uncaught"))
                    ctx.check("C12.R4", f"{mod}:{cls}.{name}", f"{call_name(c)}(headers <- {sorted(l for l in p.leaves if l.startswith(('message', 'self.response')))})", ok,
                              f"application-supplied headers reach {call_name(c)} without passing build_and_validate_headers on every path (e.g. validated for some HTTP versions only; ops: {sorted(p.ops)})", c)
    ctx.need(n4 >= 6, f"only {n4} application-header sinks found")

    # ---------------- R5
    bv = repo.func("utils", "build_and_validate_headers")
    wb = "utils:build_and_validate_headers"
    cases = [
        ("plain pair kept", [(b"a", b"b"), (b"c", b"d")], [(b"a", b"b"), (b"c", b"d")]),
        ("surrounding whitespace stripped", [(b" a ", b" b ")], [(b"a", b"b")]),
        ("pseudo-header rejected", [(b":status", b"200")], "raise"),
        ("pseudo-header hidden behind leading whitespace rejected", [(b" :status", b"200")], "raise"),
        ("str name rejected", [("a", b"b")], "raise"),
        ("str value rejected", [(b"a", "b")], "raise"),
        ("CR/LF in value rejected", [(b"a", b"v\r\nset-cookie: x=1")], "raise"),
        ("LF in name rejected", [(b"a\nb", b"v")], "raise"),
        ("NUL in value rejected", [(b"a", b"v\x00w")], "raise"),
        ("headers given as a one-shot iterator are all kept (single pass)", "ITER", [(b"a", b"b"), (b"c", b"d")]),
        ("bytearray / memoryview values become bytes", [(bytearray(b"a"), bytearray(b"b"))], [(b"a", b"b")]),
        ("order and repeats preserved", [(b"set-cookie", b"a=1"), (b"x", b"1"), (b"set-cookie", b"b=2")], [(b"set-cookie", b"a=1"), (b"x", b"1"), (b"set-cookie", b"b=2")]),
    ]
    for label, inp, want in cases:
        if inp == "ITER":
            inp = iter([(b"a", b"b"), (b"c", b"d")])
        try:
            got = eval_function(bv, {"headers": inp})
            got_r = got
        except _Raised as r:
            got_r = "raise"
        except Unknown as u:
            got_r = f"not evaluable: {u}"
        ctx.check("C12.R5", wb, label, got_r == want, f"build_and_validate_headers({inp!r}) -> {got_r!r}, expected {want!r}", bv, sample={"input": repr(inp), "result": repr(got_r)})

    # ---------------- R6
    aps = repo.func("protocol.http_stream", "HTTPStream.app_send")
    g = CFG(aps)
    rs = [n for n in walk_local(aps) if isinstance(n, ast.Raise) and "TypeError" in norm(n)]
    ok = len(rs) == 1 and ("isinstance(message['path'], str)", False) in guard_atoms(rs[0]) and ("message['type'] == 'http.response.push'", True) in guard_atoms(rs[0])
    if ok:
        req = g.where(has_stmt(lambda n: isinstance(n, ast.Call) and call_name(n) == "Request"))
        tn = [n.id for n in g.nodes if n.kind == "test" and norm(n.ast.test) == "not isinstance(message['path'], str)"]
        ok = bool(req) and bool(tn) and all(g.dominates(lambda n: n.id in tn, r) for r in req)
    ctx.check("C12.R6", "protocol.http_stream:HTTPStream.app_send", "push path must be str, checked before the push is emitted", ok, "a non-str push path must raise before anything is sent", rs[0] if rs else aps)
    from . import c10

    c10.run(Alias(ctx, "C12.R6", "websocket.send: non-str text raises TypeError before a frame is built (same analysis as C10.R6)", only={"C10.R6"}))

    # ---------------- R7
    she = repo.func("protocol.h11", "H11Protocol._send_h11_event")
    hs = [h for t in walk_local(she) if isinstance(t, ast.Try) for h in t.handlers if "LocalProtocolError" in norm(h.type)]
    ok = len(hs) == 1
    if ok:
        rr = [n for n in ast.walk(hs[0]) if isinstance(n, ast.Raise) and n.exc is None]
        ok = len(rr) == 1 and guard_atoms(rr[0], stop=hs[0]) == {("self.connection.their_state != h11.ERROR", True)}
    ctx.check("C12.R7", "protocol.h11:H11Protocol._send_h11_event", "LocalProtocolError re-raised unless their_state == ERROR", ok, "h11's rejection of an invalid application message would be swallowed", hs[0] if hs else she)

    ctx.assume("not decided: what h11 / h2 / wsproto validate on their own; C12.R2/R3 (a rejected message leaves no emission and no state change; at most one final head) are decided by the typestate analysis reported under this property")
    from . import typestate_rules

    typestate_rules.run_for(ctx, "C12")
