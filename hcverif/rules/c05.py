"""C05 — application failures are contained and never yield a falsely complete response."""
from __future__ import annotations

import ast

from ..astq import ancestors, arg, call_name, calls, dotted, find_calls, guard_atoms, guards, kwarg, norm, provenance, walk_local
from ..cfg import CFG, stmt_has
from ..core import Alias, Ctx
from .common import arm_for, explain, find_in, has_call, has_stmt
from .c08 import handler_classes


def run(ctx: Ctx) -> None:
    if getattr(ctx, "_depth", 0) >= 2:
        return  # alias of an alias: not followed (breaks import cycles between rule modules)
    repo = ctx.repo
    ctx.rule("C05.R1", "_handle (both workers): every exit - normal, exception, cancellation - passes send(None); application exceptions are logged and not propagated; cancellation is re-raised; the application gets the stream's own send/receive", floor=8)
    ctx.rule("C05.R4", "HTTP/2: when a stream is closed before its response body was completed the peer is told with RST_STREAM (otherwise it sees neither END_STREAM nor a reset and waits forever)", floor=1)
    ctx.rule("C05.R7", "the h2 connection keeps outbound header normalisation/validation on: the server's own error responses carry `connection: close`, which h2 strips only while normalising (with it off send_headers raises, the 500 is lost and DATA precedes HEADERS)", floor=1)

    for mod, cancel in (("asyncio.task_group", "CancelledError"), ("trio.task_group", "Cancelled")):
        fn = repo.func(mod, "_handle")
        w = f"{mod}:_handle"
        g = CFG(fn)
        none_send = has_stmt(lambda n: isinstance(n, ast.Call) and call_name(n) == "send" and len(n.args) == 1 and norm(n.args[0]) == "None")
        wit = g.must_pass(g.entry, g.exits(), none_send)
        ctx.check("C05.R1", w, "every exit passes send(None)", wit is None, "the application can end (return, raise or be cancelled) without the stream being told: no 500, no close, the client waits forever: " + explain(g, wit), fn)
        appc = [c for c in calls(fn) if call_name(c) == "app"]
        ok = len(appc) == 1 and [norm(a) for a in appc[0].args] == ["scope", "receive", "send", "sync_spawn", "call_soon"] and isinstance(getattr(appc[0], "_parent", None), ast.Await)
        ctx.check("C05.R1", w, "await app(scope, receive, send, sync_spawn, call_soon) once", ok, "the application must be called exactly once with its own callables", appc[0] if appc else fn)
        trys = [n for n in walk_local(fn) if isinstance(n, ast.Try)]
        ok = len(trys) == 1
        if ok:
            t = trys[0]
            gen = [h for h in t.handlers if handler_classes(h) == {"Exception"}]
            ok = len(gen) == 1 and any(call_name(c) == "config.log.exception" for c in calls(gen[0])) and not any(isinstance(s, ast.Raise) for s in ast.walk(gen[0]))
            ctx.check("C05.R1", w, "except Exception: log, do not propagate", ok, "an application error must be logged and must not escape into the connection's task group", gen[0] if gen else t)
            can = [h for h in t.handlers if cancel in handler_classes(h)]
            ok = len(can) == 1 and len(can[0].body) == 1 and isinstance(can[0].body[0], ast.Raise) and can[0].body[0].exc is None and t.handlers.index(can[0]) == 0
            ctx.check("C05.R1", w, "cancellation re-raised first", ok, "cancellation must not be swallowed or logged as an application error", can[0] if can else t)
        if ok:
            got = [sorted(handler_classes(h)) for h in t.handlers]
            want = [[cancel], ["Exception"]] if mod.startswith("asyncio") else [[cancel], ["BaseExceptionGroup"], ["Exception"]]
            ctx.check("C05.R1", w, "handlers are exactly: cancellation (re-raise)" + (", exception group" if mod.startswith("trio") else "") + ", Exception (log)", got == want, f"handlers catch {got}: an extra arm swallows some application failures without logging them (or a missing one lets them escape)", t)
        if mod.startswith("trio") and ok:
            grp = [h for h in t.handlers if "BaseExceptionGroup" in handler_classes(h)]
            okg = len(grp) == 1
            if okg:
                sp = [n for n in ast.walk(grp[0]) if isinstance(n, ast.Assign) and isinstance(n.value, ast.Call) and isinstance(n.value.func, ast.Attribute) and n.value.func.attr == "split"]
                okg = len(sp) == 1 and isinstance(sp[0].targets[0], ast.Tuple) and len(sp[0].targets[0].elts) == 2 and "Cancelled" in norm(sp[0].value)
                if okg:
                    rest = norm(sp[0].targets[0].elts[1])
                    logs = [c for c in ast.walk(grp[0]) if isinstance(c, ast.Call) and call_name(c) == "config.log.exception"]
                    rr = [n for n in ast.walk(grp[0]) if isinstance(n, ast.Raise) and n.exc is None]
                    okg = rest != "_" and len(logs) == 1 and (f"{rest} is not None", True) in guard_atoms(logs[0], stop=grp[0]) and len(rr) == 1 and (f"{rest} is not None", False) in guard_atoms(rr[0], stop=grp[0])
            ctx.check("C05.R1", w, "exception group: the non-cancellation REST of split(Cancelled) is logged, a pure cancellation group is re-raised", okg, "split() returns (matching, rest): using the wrong half logs cancellations and lets real application errors escape into the connection's nursery", grp[0] if grp else t)
        sa = repo.func(mod, "TaskGroup.spawn_app")
        ws = f"{mod}:TaskGroup.spawn_app"
        sp = [c for c in calls(sa) if any(norm(a) == "_handle" for a in c.args)]
        ok = len(sp) == 1
        if ok:
            args = [norm(a) for a in sp[0].args]
            i = args.index("_handle")
            ok = args[i + 1 : i + 4] == ["app", "config", "scope"] and args[i + 5] == "send" and args[i + 4] in ("app_queue.get", "app_receive_channel.receive")
        ctx.check("C05.R1", ws, "_handle spawned with (app, config, scope, <queue>.get, send, ...)", ok, "the application wrapper must receive the stream's send callback and its own queue", sp[0] if sp else sa)
        rets = [n for n in walk_local(sa) if isinstance(n, ast.Return)]
        ok = len(rets) == 1 and norm(rets[0].value) in ("app_queue.put", "app_send_channel.send")
        ctx.check("C05.R1", ws, "returns the queue's put", ok, "the stream must get the producer side of the application's queue", sa)

    # R4
    M2 = "protocol.h2"
    ss = repo.func(M2, "H2Protocol.stream_send")
    arm = arm_for(ss, "event", "StreamClosed")
    ctx.need(arm is not None, "H2Protocol.stream_send: no StreamClosed arm")
    cls_methods = repo.methods(M2, "H2Protocol")
    from .c07 import _reaches_call

    resets = _reaches_call(repo, M2, "H2Protocol", arm.body, "self.connection.reset_stream")
    ctx.check("C05.R4", f"{M2}:H2Protocol.stream_send", "StreamClosed with an uncompleted buffer -> reset_stream", resets,
              "the StreamClosed arm only forgets the stream: when the application fails after http.response.start the client receives neither END_STREAM nor RST_STREAM", arm)

    # R7
    h2i = repo.func(M2, "H2Protocol.__init__")
    cfgs = [c for c in calls(h2i) if call_name(c) == "h2.config.H2Configuration"]
    ok = len(cfgs) == 1
    bad = []
    if ok:
        for k in cfgs[0].keywords:
            v = norm(k.value)
            if k.arg in ("normalize_outbound_headers", "validate_outbound_headers", "normalize_inbound_headers", "validate_inbound_headers") and v == "False":
                bad.append(f"{k.arg}={v}")
            if k.arg == "client_side" and v != "False":
                bad.append(f"client_side={v}")
        ok = not bad and norm(kwarg(cfgs[0], "client_side")) == "False"
    ctx.check("C05.R7", f"{M2}:H2Protocol.__init__", "H2Configuration(client_side=False, normalisation and validation left on)", ok, f"h2 configuration changes {bad}", cfgs[0] if cfgs else h2i)

    # R9: who may mark a stream buffer complete
    ctx.rule("C05.R9", "HTTP/2: a stream's send buffer is marked complete (which is what makes the send task emit END_STREAM) only by the end-of-body events; StreamBuffer.close() - which also marks it complete - is called only where the peer can no longer receive the stream (send error handler, RST_STREAM, connection closed)", floor=4)
    allowed_close = {"H2Protocol._send_data": "except", "H2Protocol.handle": "isinstance(event, Closed)", "H2Protocol._handle_events": "isinstance(event, h2.events.StreamReset)"}
    seen_sites = set()
    for name, fn in cls_methods.items():
        for c in calls(fn):
            if not (isinstance(c.func, ast.Attribute) and c.func.attr in ("close", "set_complete")):
                continue
            recv = c.func.value
            pv = provenance(recv, fn)
            if "self.stream_buffers" not in pv.leaves and "self.stream_buffers" not in norm(recv):
                continue
            q = f"H2Protocol.{name}"
            if c.func.attr == "set_complete":
                ga = guard_atoms(c)
                ok = name == "stream_send" and any(a[1] and ("EndBody" in a[0] or "EndData" in a[0]) for a in ga)
                ctx.check("C05.R9", f"{M2}:{q}", "set_complete() only for EndBody/EndData", ok, "the buffer is marked complete outside the end-of-body arm: END_STREAM would be sent for a response the application never finished", c)
                seen_sites.add("set_complete")
                continue
            want = allowed_close.get(q)
            if want == "except":
                ok = any(isinstance(a, ast.ExceptHandler) for a in ancestors(c))
            elif want is not None:
                ok = (want, True) in guard_atoms(c)
            else:
                ok = False
            seen_sites.add(q)
            ctx.check("C05.R9", f"{M2}:{q}", "StreamBuffer.close() only where the peer can no longer receive the stream", ok, f"{q} closes a stream's send buffer: close() marks it complete, so the send task finishes the stream with a clean END_STREAM - an application that died mid-response yields a response that looks complete", c)
    ctx.check("C05.R9", f"{M2}:H2Protocol", "the known close()/set_complete() sites exist", {"set_complete", "H2Protocol._send_data", "H2Protocol.handle", "H2Protocol._handle_events"} <= seen_sites, f"sites found: {sorted(seen_sites)}", None)

    from . import c06

    c06.run(Alias(ctx, "C05.R3", "HTTP/1: after an aborted response the connection is closed instead of recycled - recycling requires both h11 sides DONE (C06.R1)", only={"C06.R1"}))
    from . import c17

    c17.run(Alias(ctx, "C05.R8", "WSGI adapter: an application that raises does not get its response completed by the adapter (C17.R9), its iterable is closed (C17.R3), and the response head is sent only once output exists (first chunk or normal end), so a failure after start_response() still yields a 500 instead of a truncated 200 (C17.R4)", only={"C17.R9", "C17.R3", "C17.R4"}))

    ctx.assume("not decided: the bytes the client sees and when; that sibling streams keep working (only that nothing escapes into their shared task group, see C04)")
    from . import typestate_rules

    typestate_rules.run_for(ctx, "C05")
