"""Rules decided by the typestate abstract interpreter (filled in by hcverif.typestate)."""
from __future__ import annotations

from ..core import Ctx


def run_for(ctx: Ctx, prop: str) -> None:
    from ..core import Alias

    if isinstance(ctx, Alias):
        return  # typestate rules are reported under their own property only
    try:
        from .. import typestate
    except ImportError:
        ctx.assume("typestate engine not available in this build: the typestate-decided clauses of this property are not evaluated")
        return
    typestate.run_rules(ctx, prop)
