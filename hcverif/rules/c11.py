"""C11 — WebSocket handshake validation and lifecycle mapping (structural clauses)."""
from __future__ import annotations

import ast
import itertools
from typing import List, Optional

from ..astq import ancestors, arg, call_name, calls, dotted, find_calls, guard_atoms, guards, kwarg, norm, provenance, walk_local
from ..cfg import CFG
from ..core import Alias, Ctx
from ..pred import Unknown, _Raised, eval_expr, eval_function
from .common import arm_for, explain, find_in, has_call, has_stmt

M = "protocol.ws_stream"
STATES = ["HANDSHAKE", "CONNECTED", "RESPONSE", "CLOSED", "HTTPCLOSED"]


def upgrade_table(ctx: Ctx, rule: str) -> None:
    """H11Protocol._create_stream picks WSStream iff GET + Upgrade: websocket + Connection has token upgrade."""
    repo = ctx.repo
    cs = repo.func("protocol.h11", "H11Protocol._create_stream")
    w = "protocol.h11:H11Protocol._create_stream"
    wsa = [n for n in walk_local(cs) if isinstance(n, ast.Assign) and dotted(n.targets[0]) == "self.stream" and isinstance(n.value, ast.Call) and call_name(n.value) == "WSStream"]
    ctx.need(len(wsa) == 1, f"{w}: WSStream construction not found")
    sel = None
    for a in ancestors(wsa[0]):
        if isinstance(a, ast.If) and any(wsa[0] is s for s in a.body):
            sel = a
            break
    ctx.need(sel is not None, f"{w}: WSStream selection test not found")
    prefix = [s for s in cs.body if s.lineno < sel.lineno]
    fn = ast.FunctionDef(name="sel", args=cs.args, body=prefix + [ast.Return(value=sel.test)], decorator_list=[], lineno=0)
    conns = [None, b"Upgrade", b"upgrade", b"keep-alive, Upgrade", b"Upgrade , keep-alive", b"keep-alive,\tupgrade", b"keep-alive", b"upgraded"]
    ups = [None, b"websocket", b"WebSocket", b" websocket ", b"h2c"]
    meths = [b"GET", b"POST"]
    bad = None
    n = 0
    for c, u, m in itertools.product(conns, ups, meths):
        headers = [(b"host", b"x")]
        if c is not None:
            headers.append((b"connection", c))
        if u is not None:
            headers.append((b"upgrade", u))
        want = m == b"GET" and u is not None and u.strip().lower() == b"websocket" and c is not None and any(t.strip().lower() == b"upgrade" for t in c.split(b","))
        try:
            got = bool(eval_function(fn, {"request.headers": headers, "request.method": m}))
        except (Unknown, _Raised) as error:
            bad = (c, u, m, f"not evaluable: {error}", want)
            break
        n += 1
        if got != want:
            bad = (c, u, m, got, want)
            break
    ctx.check(rule, w, "WSStream iff GET and Upgrade: websocket and `upgrade` among the Connection tokens", bad is None,
              (f"Connection: {bad[0]!r}, Upgrade: {bad[1]!r}, method {bad[2]!r}: websocket selected = {bad[3]}, expected {bad[4]}" if bad else ""), sel,
              sample={"connection_values": len(conns), "upgrade_values": len(ups), "methods": len(meths), "evaluated": n})
    h2 = repo.func("protocol.h2", "H2Protocol._create_stream")
    wsa2 = [n_ for n_ in walk_local(h2) if isinstance(n_, ast.Assign) and isinstance(n_.value, ast.Call) and call_name(n_.value) == "WSStream"]
    hta = [n_ for n_ in walk_local(h2) if isinstance(n_, ast.Assign) and isinstance(n_.value, ast.Call) and call_name(n_.value) == "HTTPStream"]
    ok = len(wsa2) == 1 and len(hta) == 1 and ("method == 'CONNECT'", True) in guard_atoms(wsa2[0]) and ("method == 'CONNECT'", False) in guard_atoms(hta[0])
    ctx.check(rule, "protocol.h2:H2Protocol._create_stream", "WSStream iff method == CONNECT", ok, "HTTP/2 websocket selection changed", wsa2[0] if wsa2 else h2)


def run(ctx: Ctx) -> None:
    if getattr(ctx, "_depth", 0) >= 2:
        return  # alias of an alias: not followed (breaks import cycles between rule modules)
    repo = ctx.repo
    ctx.rule("C11.R1", "Handshake.is_valid decision table: valid iff version == 13 and http_version >= 1.1 and (HTTP/1.1 => key present, `upgrade` among the Connection tokens, Upgrade == websocket)", floor=1)
    ctx.rule("C11.R2", "carrier detection: HTTP/1.1 picks a WebSocket iff GET + Upgrade: websocket + Connection token upgrade (whitespace/case tolerant); HTTP/2 iff CONNECT", floor=2)
    ctx.rule("C11.R5", "accept: 101 iff HTTP/1.1 else 200; sec-websocket-accept from the key when there is one; a subprotocol not offered raises before anything is emitted; extra headers appended after validation", floor=6)
    ctx.rule("C11.R6", "websocket.close during the handshake -> 403; websocket.http.response.* -> exactly that response", floor=3)
    ctx.rule("C11.R7", "disconnect code: 1000 only after the stream's own close (CLOSED/HTTPCLOSED), 1006 for every other state; a client-initiated close reports the client's code", floor=2)
    ctx.rule("C11.R8", "Handshake parses connection / key / protocol / version / upgrade / extensions from the (lower-cased) request headers", floor=1)

    # ---- R1
    iv = repo.func(M, "Handshake.is_valid")
    bad = None
    n = 0
    toks = [None, ["keep-alive"], ["Upgrade"], ["keep-alive", "upgrade"], []]
    for hv, key, ct, up, ver in itertools.product(["1.0", "1.1", "2", "3"], [None, b"k"], toks, [b"websocket", b"WebSocket", b"h2c"], [b"13", b"12", None]):
        want = ver == b"13" and hv >= "1.1" and (hv != "1.1" or (key is not None and ct is not None and any(t.lower() == "upgrade" for t in ct) and up.lower() == b"websocket"))
        env = {"self.http_version": hv, "self.key": key, "self.connection_tokens": ct, "self.upgrade": up, "self.version": ver, "WEBSOCKET_VERSION": b"13"}
        try:
            got = bool(eval_function(iv, env))
        except (Unknown, _Raised) as error:
            bad = (env, f"not evaluable: {error}", want)
            break
        n += 1
        if got != want:
            bad = ({k.split(".")[-1]: v for k, v in env.items() if k != "WEBSOCKET_VERSION"}, got, want)
            break
    ctx.check("C11.R1", f"{M}:Handshake.is_valid", "validity table (4 versions x key x tokens x upgrade x ws-version)", bad is None, f"handshake {bad[0]}: is_valid = {bad[1]}, expected {bad[2]}" if bad else "", iv, sample={"evaluated": n})

    # ---- R2
    upgrade_table(ctx, "C11.R2")

    # ---- R8
    hi = repo.func(M, "Handshake.__init__")
    pn_ = [a.arg for a in hi.args.args][1:]
    hdrs_ = [(b"Connection", b"keep-alive, Upgrade"), (b"UPGRADE", b"websocket"), (b"Sec-WebSocket-Key", b"k"), (b"sec-websocket-version", b"13"), (b"Sec-Websocket-Protocol", b"a, b"), (b"Sec-WebSocket-Extensions", b"permessage-deflate"), (b"x-other", b"1")]
    want_ = {"self.connection_tokens": ["keep-alive", "Upgrade"], "self.upgrade": b"websocket", "self.key": b"k", "self.version": b"13", "self.subprotocols": ["a", "b"], "self.extensions": ["permessage-deflate"], "self.http_version": "1.1"}
    try:
        out_ = eval_function(hi, {**dict(zip(pn_, [hdrs_, "1.1"])), "call:split_comma_header": lambda v: [x.strip() for x in v.decode().split(",")]}, want_env=True) if len(pn_) == 2 else {}
        got_ = {k_: out_.get(k_) for k_ in want_}
    except Exception as error:
        got_ = {"not evaluable": str(error)}
    ctx.check("C11.R8", f"{M}:Handshake.__init__", "header -> field table (names matched case-insensitively)", got_ == want_, f"parsed fields: {got_}, expected {want_}", hi)

    # ---- R5
    ac = repo.func(M, "Handshake.accept")
    wa = f"{M}:Handshake.accept"
    sc = [n_ for n_ in walk_local(ac) if isinstance(n_, ast.Assign) and dotted(n_.targets[0]) == "status_code"]
    from .common import value_slice as _vs

    fn_sc = _vs(ac.body, lambda c_: False, lambda c_: c_, tail=ast.Name(id="status_code", ctx=ast.Load()))
    vals = {}
    for ver_ in ("1.1", "2", "3"):
        try:
            vals[ver_] = eval_function(fn_sc, {"__lenient__": True, "self.http_version": ver_, "subprotocol": None, "self.subprotocols": None, "self.extensions": None, "self.key": None, "additional_headers": []})
        except Exception as error:
            vals[ver_] = f"not evaluable: {error}"
    ok = vals == {"1.1": 101, "2": 200, "3": 200} and len(sc) >= 1
    ctx.check("C11.R5", wa, "status 101 iff http_version == 1.1 else 200", ok, f"status assignments: {vals}", ac)
    tok = [c for c in calls(ac) if call_name(c) == "generate_accept_token"]
    ok = len(tok) == 1 and norm(arg(tok[0], 0)) == "self.key" and ("self.key is not None", True) in guard_atoms(tok[0]) and "(b'sec-websocket-accept', generate_accept_token(self.key))" in norm(ac)
    ctx.check("C11.R5", wa, "sec-websocket-accept = generate_accept_token(self.key) when a key exists", ok, "the RFC 6455 accept token must be derived from the client's key", tok[0] if tok else ac)
    rs = [n_ for n_ in walk_local(ac) if isinstance(n_, ast.Raise) and "Invalid Subprotocol" in norm(n_)]
    ok = len(rs) == 1
    if ok:
        gs = guards(rs[0])
        try:
            def rej(sub, offered):
                return all(bool(eval_expr(t, {"subprotocol": sub, "self.subprotocols": offered})) == p for t, p in gs)
            ok = rej("x", None) and rej("x", ["a"]) and not rej("a", ["a", "b"]) and not rej(None, ["a"]) and not rej(None, None)
        except Unknown:
            ok = False
    ctx.check("C11.R5", wa, "a subprotocol that was not offered raises", ok, "only a subprotocol the client offered may be selected", rs[0] if rs else ac)
    xe = [c for c in calls(ac) if call_name(c) == "headers.append" and "sec-websocket-extensions" in norm(c)]
    ok = len(xe) == 1 and guard_atoms(xe[0]) == {("accepts", True)} and norm(arg(xe[0], 0)) == "(b'sec-websocket-extensions', accepts)"
    ctx.check("C11.R5", wa, "negotiated extensions announced whenever any were accepted (both carriers)", ok, "the extension header is emitted under an extra condition (e.g. only when a key exists): over HTTP/2 permessage-deflate is enabled on the server but never announced, and the client rejects the compressed frames", xe[0] if xe else ac)
    xa = [n_ for n_ in walk_local(ac) if isinstance(n_, ast.Assign) and dotted(n_.targets[0]) == "accepts" and isinstance(n_.value, ast.Call)]
    ok = len(xa) == 1 and norm(xa[0].value) == "server_extensions_handshake(self.extensions, extensions)" and guard_atoms(xa[0]) == {("self.extensions is not None", True)}
    ctx.check("C11.R5", wa, "extensions negotiated from the client's offer", ok, "extension negotiation changed", xa[0] if xa else ac)
    ext_arg = xa[0].value.args[1] if xa and len(xa[0].value.args) > 1 else None
    pv = provenance(ext_arg, ac) if ext_arg is not None else None
    fresh = pv is not None and "PerMessageDeflate()" in pv.ops and not [l_ for l_ in pv.leaves if not l_.startswith("const:")]
    ctx.check("C11.R5", wa, "the permessage-deflate extension object is created for this handshake (not shared)", fresh, f"the extension objects offered to wsproto come from {pv}: wsproto extension objects carry per-connection state (enabled flag, zlib contexts) - shared between handshakes, a client that never offered deflate gets compressed frames", ext_arg if ext_arg is not None else ac)
    sp = [c for c in calls(ac) if call_name(c) == "headers.append" and "sec-websocket-protocol" in norm(c)]
    ok = len(sp) == 1 and norm(arg(sp[0], 0)) == "(b'sec-websocket-protocol', subprotocol.encode())"
    ctx.check("C11.R5", wa, "selected subprotocol echoed", ok, "the chosen subprotocol must be echoed", sp[0] if sp else ac)
    ah = [n_ for n_ in walk_local(ac) if isinstance(n_, ast.Raise) and "Invalid additional header" in norm(n_)]
    ap = [c for c in calls(ac) if call_name(c) == "headers.append" and norm(arg(c, 0)) == "(name, value)"]
    ok = len(ah) == 1 and len(ap) == 1 and ah[0].lineno < ap[0].lineno and any("name.startswith(b':')" in a[0] for a in guard_atoms(ah[0]))
    ctx.check("C11.R5", wa, "additional headers validated then appended in order", ok, "extra headers must be appended after validation", ac)
    acc = repo.func(M, "WSStream._accept")
    g = CFG(acc)
    hn = g.where(has_call("self.handshake.accept"))
    sn = g.where(has_call("self.send"))
    stn = g.where(has_stmt(lambda n_: isinstance(n_, ast.Assign) and dotted(n_.targets[0]) == "self.state"))
    ok = bool(hn) and bool(sn) and all(g.dominates(lambda n_: n_.id in hn, s) for s in sn + stn)
    rsp = [c for c in calls(acc) if call_name(c) == "Response"]
    ok = ok and len(rsp) == 1 and norm(kwarg(rsp[0], "status_code")) == "status_code" and norm(kwarg(rsp[0], "headers")) == "headers"
    hc = find_calls(acc, "self.handshake.accept")
    ok = ok and len(hc) == 1 and len(hc[0].args) == 2 and norm(hc[0].args[0]) == "message.get('subprotocol')" and norm(hc[0].args[1]) in ("message.get('headers', [])", "build_and_validate_headers(message.get('headers', []))")
    ctx.check("C11.R5", f"{M}:WSStream._accept", "handshake.accept(subprotocol, headers) validated before state change and emission; its result is sent", ok, "a rejected accept must leave nothing on the wire and the state unchanged", acc)

    # ---- R6
    aps = repo.func(M, "WSStream.app_send")
    wp = f"{M}:WSStream.app_send"
    e403 = [c for c in find_calls(aps, "self._send_error_response") if norm(arg(c, 0)) == "403"]
    ok = len(e403) == 1 and {("message['type'] == 'websocket.close'", True), ("self.state == ASGIWebsocketState.HANDSHAKE", True)} <= guard_atoms(e403[0])
    ctx.check("C11.R6", wp, "websocket.close in HANDSHAKE -> 403", ok, "refusing the handshake must answer 403", e403[0] if e403 else aps)
    st = [n_ for n_ in walk_local(aps) if isinstance(n_, ast.Assign) and dotted(n_.targets[0]) == "self.response" and norm(n_.value) == "message"]
    ok = len(st) == 1 and {("message['type'] == 'websocket.http.response.start'", True), ("self.state == ASGIWebsocketState.HANDSHAKE", True)} <= guard_atoms(st[0])
    ctx.check("C11.R6", wp, "websocket.http.response.start stored in HANDSHAKE", ok, "the HTTP-response extension must record the given response", st[0] if st else aps)
    rj = [c for c in find_calls(aps, "self._send_rejection")]
    ok = len(rj) == 1 and ("message['type'] == 'websocket.http.response.body'", True) in guard_atoms(rj[0]) and norm(arg(rj[0], 0)) == "message"
    ctx.check("C11.R6", wp, "websocket.http.response.body -> _send_rejection(message)", ok, "the HTTP-response extension must render the given body", rj[0] if rj else aps)

    # ---- R7
    hd = repo.func(M, "WSStream.handle")
    wh = f"{M}:WSStream.handle"
    arm = arm_for(hd, "event", "StreamClosed")
    ctx.need(arm is not None, f"{wh}: no StreamClosed arm")
    from .common import value_slice

    def _is_disc(c_):
        return call_name(c_) == "self.app_put" and c_.args and isinstance(c_.args[0], ast.Dict) and any(norm(v_) == "'websocket.disconnect'" for v_ in c_.args[0].values)

    def _code_of(c_):
        d_ = dict((norm(k_), v_) for k_, v_ in zip(c_.args[0].keys, c_.args[0].values))
        return d_.get("'code'", ast.Constant(value=None))

    fn = value_slice(arm.body, _is_disc, _code_of)
    env0 = {f"ASGIWebsocketState.{s}": s for s in STATES}
    env0.update({"CloseReason.NORMAL_CLOSURE.value": 1000, "CloseReason.ABNORMAL_CLOSURE.value": 1006, "CloseReason.NORMAL_CLOSURE": 1000, "CloseReason.ABNORMAL_CLOSURE": 1006, "self.closed": False, "self.app_put": "<callable>"})
    bad = None
    for s in STATES:
        try:
            got = eval_function(fn, {**env0, "__lenient__": True, "self.state": s})
        except (Unknown, _Raised) as error:
            bad = (s, f"not evaluable: {error}", None)
            break
        want = 1000 if s in ("CLOSED", "HTTPCLOSED") else 1006
        if got != want:
            bad = (s, got, want)
            break
    ctx.check("C11.R7", wh, "code table: 1000 for CLOSED/HTTPCLOSED, 1006 for HANDSHAKE/CONNECTED/RESPONSE", bad is None, f"state {bad[0]}: disconnect code {bad[1]}, expected {bad[2]}" if bad else "", arm)
    # client-initiated close: the received close code must reach the disconnect message
    he = repo.func(M, "WSStream._handle_events")
    carm = arm_for(he, "event", "CloseConnection")
    stored_attrs = set()
    if carm is not None:
        for n_ in ast.walk(carm):
            if isinstance(n_, ast.Assign) and "event.code" in norm(n_.value):
                for t in n_.targets:
                    d = dotted(t)
                    if d and d.startswith("self."):
                        stored_attrs.add(d)
    stored = bool(stored_attrs)
    put = [c for c in ast.walk(arm) if isinstance(c, ast.Call) and call_name(c) == "self.app_put" and "websocket.disconnect" in norm(c)]
    uses = False
    for c in put:
        if c.args and isinstance(c.args[0], ast.Dict):
            for k, v in zip(c.args[0].keys, c.args[0].values):
                if norm(k) == "'code'" and (provenance(v, hd).leaves & stored_attrs):
                    uses = True
    ctx.check("C11.R7", wh, "client-initiated close: the client's close code reaches websocket.disconnect", stored and uses,
              "the disconnect code is derived from the stream state only: after a client-initiated close (e.g. code 1001) the application is told 1006", arm)

    from . import c03

    c03.run(Alias(ctx, "C11.R9", "the application always gets its websocket.disconnect: both protocols notify every stream they remove with StreamClosed (C03.R6) and the streams mark themselves closed before awaiting (C03.R5)", only={"C03.R5", "C03.R6"}))

    ctx.assume("not decided: the accept token value and extension negotiation (wsproto), header syntax corner cases inside split_comma_header")
    ctx.assume("frozen library fact: wsproto.handshake.WEBSOCKET_VERSION == b'13'")
    from . import typestate_rules

    typestate_rules.run_for(ctx, "C11")
