"""C09 — HTTP/2 flow control respected; multiplexed delivery live and ordered (structural clauses)."""
from __future__ import annotations

import ast
from typing import List

from ..astq import arg, call_name, calls, dotted, guard_atoms, guards, norm, provenance, walk_local, find_calls
from ..cfg import CFG
from ..core import Ctx
from ..pred import Unknown, eval_expr
from .common import arm_for, explain, find_in, has_call, has_stmt, nodes_with_call

M = "protocol.h2"

H2_EVENTS = [
    "RequestReceived",
    "DataReceived",
    "StreamEnded",
    "StreamReset",
    "WindowUpdated",
    "PriorityUpdated",
    "RemoteSettingsChanged",
    "ConnectionTerminated",
]

MUTATORS = {
    "self.connection.send_data",
    "self.connection.end_stream",
    "self.connection.send_headers",
    "self.connection.reset_stream",
    "self.connection.close_connection",
    "self.connection.update_settings",
    "self.connection.push_stream",
    "self.connection.acknowledge_received_data",
    "self.connection.initiate_connection",
    "self.connection.initiate_upgrade_connection",
}


def run(ctx: Ctx) -> None:
    if getattr(ctx, "_depth", 0) >= 2:
        return  # alias of an alias: not followed (breaks import cycles between rule modules)
    repo = ctx.repo
    ctx.rule("C09.R1", "the DATA payload handed to h2 comes from pop(n) with n = max(0, min(local_flow_control_window(stream_id), max_outbound_frame_size))", floor=3)
    ctx.rule("C09.R2", "when nothing could be sent the stream is blocked in (or removed from) the priority tree before _send_data returns (no spinning)", floor=1)
    ctx.rule("C09.R3", "every priority.unblock(...) is followed on every normal path by has_data.set() (the send task is woken)", floor=4)
    ctx.rule("C09.R4", "send_task: between two waits on has_data the event is cleared and the priority tree re-consulted", floor=3)
    ctx.rule("C09.R5", "END_STREAM is sent only when the buffer is complete and drained, and is followed by removal of buffer and tree entry; complete == flagged and empty; only the end-of-body event marks a buffer complete", floor=5)
    ctx.rule("C09.R6", "_handle_events dispatches all eight h2 events; WINDOW_UPDATE (stream and connection level), INITIAL_WINDOW_SIZE changes and RST_STREAM reach unblock + wake-up", floor=14)
    ctx.rule("C09.R7", "received DATA is acknowledged with its flow-controlled length on every non-exceptional path of the DataReceived arm", floor=2)
    ctx.rule("C09.R8", "every h2 state change that produces bytes is followed by _flush() on every normal path of the same function", floor=8)
    ctx.rule("C09.R11", "the send task owns the send bookkeeping: a stream's buffer and priority entry are removed only by _send_data (after END_STREAM or in its error handler) - any other task removing them makes the suspended send task fail with KeyError and stops every stream", floor=2)
    ctx.rule("C09.R10", "a stream inserted into the priority tree starts blocked (it has nothing to send yet): every insert_stream is followed by block() of the same id, otherwise the send task picks a stream without data/buffer and dies", floor=2)
    ctx.rule("C09.R9", "body data is queued in order: one buffer per stream, push appends at the end, pop removes from the front", floor=4)

    sd = repo.func(M, "H2Protocol._send_data")
    w = f"{M}:H2Protocol._send_data"
    sends = find_calls(sd, "self.connection.send_data")
    ctx.need(len(sends) >= 1, "no connection.send_data call in _send_data")
    for c in sends:
        data = arg(c, 1, "data")
        sid = arg(c, 0, "stream_id")
        p = provenance(data, sd)
        ok = "pop()" in p.ops and "self.stream_buffers" in p.leaves and "stream_id" in p.leaves
        ctx.check("C09.R1", w, "send_data(data <- stream_buffers[stream_id].pop(n))", ok and norm(sid) == "stream_id", f"DATA payload provenance {p}", c)
    pops = [c for c in calls(sd) if isinstance(c.func, ast.Attribute) and c.func.attr == "pop" and "stream_buffers" in norm(c.func)]
    ctx.need(len(pops) == 1, "expected exactly one stream_buffers[..].pop(..) in _send_data")
    n_expr = arg(pops[0], 0, "max_length")
    from ..pred import eval_function as _evf9
    from .common import value_slice as _vs9

    try_bodies = [t_ for t_ in sd.body if isinstance(t_, ast.Try)]
    body9 = try_bodies[0].body if try_bodies else sd.body
    sl9 = _vs9(body9, lambda c_: c_ is pops[0], lambda c_: arg(c_, 0, "max_length"))
    bad9 = None
    for window, frame in ((-5, 16384), (0, 16384), (10, 16384), (16384, 16384), (100000, 16384), (100000, 20), (-1, 20)):
        try:
            got9 = _evf9(sl9, {"__lenient__": True, "stream_id": 1, "self.connection.max_outbound_frame_size": frame, "call:self.connection.local_flow_control_window": lambda sid_, w_=window: w_ if sid_ == 1 else "wrong stream"})
        except Exception as error:
            got9 = f"not evaluable: {error}"
        if got9 != max(0, min(window, frame)):
            bad9 = (window, frame, got9)
            break
    ctx.check("C09.R1", w, "n <- max(0, min(window, frame size)) (evaluated for windows -5..100000 and two frame sizes)", bad9 is None, "" if bad9 is None else f"stream window {bad9[0]}, max frame size {bad9[1]}: pop({bad9[2]}), expected pop({max(0, min(bad9[0], bad9[1]))}): a negative length slices from the end of the buffer and h2 raises FlowControlError; a length above the window or the frame size is refused by h2 and the stream's data is discarded", pops[0])
    wins = find_calls(sd, "self.connection.local_flow_control_window")
    ctx.check("C09.R1", w, "window of this stream", len(wins) == 1 and norm(arg(wins[0], 0)) == "stream_id", "local_flow_control_window must be asked for stream_id", wins[0] if wins else sd)
    # R2
    cfg = CFG(sd)
    popn = [n for n in cfg.where(has_call("self.stream_buffers[].pop"))]
    ctx.need(popn, "pop node not found in CFG")
    through = has_call("self.connection.send_data", "self.priority.block", "self.priority.remove_stream")
    wit = cfg.must_pass(popn[0], [cfg.exit], through, skip_labels=())
    ctx.check("C09.R2", w, "pop -> (send_data | priority.block | remove_stream) -> exit", wit is None, "path on which nothing is sent and the stream stays unblocked: " + explain(cfg, wit), sd)
    blocks = find_calls(sd, "self.priority.block")
    for b in blocks:
        ctx.check("C09.R2", w, "block(stream_id)", norm(arg(b, 0)) == "stream_id", f"blocks {norm(arg(b, 0))}", b)

    # R3
    h2p = repo.methods(M, "H2Protocol")
    n_unblock = 0
    for name, fn in h2p.items():
        un = find_calls(fn, "self.priority.unblock")
        if not un:
            continue
        g = CFG(fn)
        for nid in g.where(has_call("self.priority.unblock")):
            n_unblock += 1
            wit = g.must_pass(nid, [g.exit], has_call("self.has_data.set"), skip_labels=("exc", "uncaught", "catch"))
            ctx.check("C09.R3", f"{M}:H2Protocol.{name}", f"unblock@{norm(g.node(nid).ast).splitlines()[0][:50]}", wit is None, "unblock not followed by has_data.set(): " + explain(g, wit), g.node(nid).ast)
    ssf = repo.func(M, "H2Protocol.stream_send")
    gs_ = CFG(ssf)
    for blocking in ("self.stream_buffers[].push", "self.stream_buffers[].drain"):
        for nid in gs_.where(has_call(blocking)):
            ok = gs_.dominates(has_call("self.has_data.set"), nid) and gs_.dominates(has_call("self.priority.unblock"), nid)
            ctx.check("C09.R3", f"{M}:H2Protocol.stream_send", f"unblock + wake-up before the blocking {blocking.split('.')[-1]}()", ok,
                      f"{blocking.split('.')[-1]}() can wait (buffer above the high-water mark / not yet drained) for the send task, which is only woken afterwards: a chunk of 32 KiB or more deadlocks the response", gs_.node(nid).ast)
    for name, fn in h2p.items():
        ins = find_calls(fn, "self.priority.insert_stream")
        if not ins:
            continue
        gi = CFG(fn)
        for nid in gi.where(has_call("self.priority.insert_stream")):
            call = [c for c in ins if any(c is x for x in ast.walk(gi.node(nid).ast))][0]
            sid = norm(arg(call, 0, "stream_id"))
            blk = has_stmt(lambda n, _sid=sid: isinstance(n, ast.Call) and call_name(n) == "self.priority.block" and n.args and norm(n.args[0]) == _sid)
            wit = gi.must_pass(nid, [gi.exit], blk, skip_labels=("exc", "uncaught", "catch"))
            ctx.check("C09.R10", f"{M}:H2Protocol.{name}", f"insert_stream({sid}) -> block({sid})", wit is None, "a freshly inserted stream stays unblocked: next(self.priority) hands it to _send_data before it has a buffer (KeyError inside the handler kills the send task and with it every stream of the connection): " + explain(gi, wit), call)
    # R4
    st = repo.func(M, "H2Protocol.send_task")
    g = CFG(st)
    ws = f"{M}:H2Protocol.send_task"
    waits = g.where(has_call("self.has_data.wait"))
    nexts = g.where(has_stmt(lambda n: isinstance(n, ast.Call) and dotted(n.func) == "next" and n.args and norm(n.args[0]) == "self.priority"))
    ctx.need(len(waits) == 1 and len(nexts) >= 1, "send_task: has_data.wait()/next(self.priority) not found")
    wit = g.must_pass(waits[0], waits, lambda n: n.id in nexts)
    ctx.check("C09.R4", ws, "wait -> next(priority) -> wait", wit is None, "waits again without re-consulting the tree: " + explain(g, wit), st)
    wit = g.must_pass(waits[0], nexts, has_call("self.has_data.clear"))
    ctx.check("C09.R4", ws, "wait -> clear -> next(priority)", wit is None, "event not cleared after waking (busy loop): " + explain(g, wit), st)
    for nx in nexts:
        ctx.check("C09.R4", ws, "no clear between the deadlock check and the wait", not _passes(g, nx, waits, "self.has_data.clear"), "has_data cleared between next(priority) and wait(): a wake-up in between is lost", st)
    sdc = find_calls(st, "self._send_data")
    ok = len(sdc) == 1 and norm(arg(sdc[0], 0)) == "stream_id"
    ctx.check("C09.R4", ws, "_send_data(next(priority))", ok and "next()" in provenance(arg(sdc[0], 0), st).ops, "send_task must serve the stream the priority tree returned", sdc[0] if sdc else st)

    # R5
    ends = find_calls(sd, "self.connection.end_stream")
    ctx.need(len(ends) == 1, "expected one end_stream call in _send_data")
    ga = guard_atoms(ends[0])
    ctx.check("C09.R5", w, "end_stream guarded by buffer.complete", ("self.stream_buffers[stream_id].complete", True) in ga and norm(arg(ends[0], 0)) == "stream_id", f"end_stream guards: {sorted(ga)}", ends[0])
    en = cfg.where(has_call("self.connection.end_stream"))
    dels = has_stmt(lambda n: isinstance(n, ast.Delete) and "self.stream_buffers[stream_id]" in norm(n))
    wit1 = cfg.must_pass(en[0], [cfg.exit], dels, skip_labels=("exc",))
    wit2 = cfg.must_pass(en[0], [cfg.exit], has_call("self.priority.remove_stream"), skip_labels=("exc",))
    ctx.check("C09.R5", w, "end_stream -> del buffer -> remove_stream", wit1 is None and wit2 is None, "after END_STREAM the buffer/tree entry survives (a second END_STREAM would follow): " + explain(cfg, wit1 or wit2), ends[0])
    ctests = [n.id for n in cfg.nodes if n.kind == "test" and "self.stream_buffers[stream_id].complete" in norm(n.ast.test)]
    wit = cfg.must_pass(cfg.entry, [cfg.exit], lambda n: n.id in ctests, skip_labels=("exc", "uncaught", "catch")) if ctests else [cfg.entry]
    ctx.check("C09.R5", w, "completion is tested on every normal path of _send_data (END_STREAM needs no flow-control credit)", wit is None, "a path through _send_data (e.g. an early return when the window is exhausted) skips the completion test: END_STREAM for an already drained buffer waits for a WINDOW_UPDATE that may never come: " + explain(cfg, wit), sd)
    rem = []
    for name_, fn_ in repo.methods(M, "H2Protocol").items():
        for n_ in walk_local(fn_):
            if isinstance(n_, ast.Delete) and any("self.stream_buffers[" in norm(t_) for t_ in n_.targets):
                rem.append((name_, "del self.stream_buffers[...]", n_))
            elif isinstance(n_, ast.Call) and call_name(n_) in ("self.priority.remove_stream", "self.stream_buffers.pop", "self.stream_buffers.clear"):
                rem.append((name_, call_name(n_), n_))
    for name_, what_, n_ in rem:
        ctx.check("C09.R11", f"{M}:H2Protocol.{name_}", f"{what_} only in _send_data", name_ == "_send_data", f"H2Protocol.{name_} removes send bookkeeping ({what_}): a send task suspended in a write for that stream resumes into KeyError (also inside its own error handler) and dies - all streams stop", n_)
    ctx.check("C09.R11", f"{M}:H2Protocol._send_data", "removal sites present", len([r for r in rem if r[0] == "_send_data"]) >= 4, f"removal sites: {[(a, b) for a, b, _ in rem]}", sd)
    comp = repo.func(M, "StreamBuffer.complete")
    rets = [n for n in walk_local(comp) if isinstance(n, ast.Return)]
    ok = len(rets) == 1
    if ok:
        table_ok = True
        for flag in (False, True):
            for blen in (0, 1):
                try:
                    v = eval_expr(rets[0].value, {"self._complete": flag, "self.buffer": b"x" * blen})
                except Unknown:
                    table_ok = False
                    break
                if bool(v) != (flag and blen == 0):
                    table_ok = False
        ok = table_ok
    ctx.check("C09.R5", f"{M}:StreamBuffer.complete", "complete == _complete and buffer empty", ok, f"complete is {norm(rets[0].value) if rets else '?'}", comp)
    ss = repo.func(M, "H2Protocol.stream_send")
    scs = find_calls(ss, "self.stream_buffers[].set_complete")
    ok = len(scs) == 1
    if ok:
        arm = arm_for(ss, "event", "EndBody")
        ok = arm is not None and any(c is scs[0] for c in find_in(arm.body, "self.stream_buffers[].set_complete")) and "event.stream_id" in norm(scs[0])
    all_sc = [c for _, _, fn in repo.all_functions() for c in calls(fn) if isinstance(c.func, ast.Attribute) and c.func.attr == "set_complete"]
    ctx.check("C09.R5", f"{M}:H2Protocol.stream_send", "set_complete only in the EndBody/EndData arm", ok and len(all_sc) == 1, f"{len(all_sc)} set_complete call sites", scs[0] if scs else ss)
    sc = repo.func(M, "StreamBuffer.set_complete")
    ok = any(isinstance(n, ast.Assign) and dotted(n.targets[0]) == "self._complete" and norm(n.value) == "True" for n in walk_local(sc))
    ctx.check("C09.R5", f"{M}:StreamBuffer.set_complete", "_complete = True", ok, "set_complete must flag the buffer", sc)

    # R6
    he = repo.func(M, "H2Protocol._handle_events")
    wh = f"{M}:H2Protocol._handle_events"
    for ev in H2_EVENTS:
        arm = arm_for(he, "event", ev)
        ctx.check("C09.R6", wh, f"arm:{ev}", arm is not None, f"no isinstance(event, h2.events.{ev}) arm", he)
    arm = arm_for(he, "event", "WindowUpdated")
    if arm is not None:
        cs = find_in(arm.body, "self._window_updated")
        ctx.check("C09.R6", wh, "WindowUpdated -> _window_updated(event.stream_id)", len(cs) == 1 and norm(arg(cs[0], 0)) == "event.stream_id" and not (guard_atoms(cs[0], stop=arm) - {(norm(arm.test), True)}) , "WINDOW_UPDATE must always reach _window_updated(event.stream_id)", arm)
    arm = arm_for(he, "event", "RemoteSettingsChanged")
    if arm is not None:
        cs = find_in(arm.body, "self._window_updated")
        ok = len(cs) == 1 and norm(arg(cs[0], 0)) == "None"
        if ok:
            extra = {a for a in guard_atoms(cs[0]) if "INITIAL_WINDOW_SIZE" in a[0]}
            ok = extra == {("h2.settings.SettingCodes.INITIAL_WINDOW_SIZE in event.changed_settings", True)}
        ctx.check("C09.R6", wh, "INITIAL_WINDOW_SIZE change -> _window_updated(None)", ok, "a changed initial window must unblock all streams", arm)
    arm = arm_for(he, "event", "StreamReset")
    if arm is not None:
        cs = find_in(arm.body, "self._window_updated")
        ctx.check("C09.R6", wh, "StreamReset -> _window_updated(event.stream_id)", len(cs) == 1 and norm(arg(cs[0], 0)) == "event.stream_id", "a reset stream must be unblocked so the send task discards its buffer", arm)
    arm = arm_for(he, "event", "PriorityUpdated")
    if arm is not None:
        cs = find_in(arm.body, "self._priority_updated")
        ctx.check("C09.R6", wh, "PriorityUpdated -> _priority_updated(event)", len(cs) == 1 and norm(arg(cs[0], 0)) == "event", "PRIORITY frames must be applied to the tree", arm)
    # the loop visits every event: no break/return inside the for body
    loops = [n for n in walk_local(he) if isinstance(n, ast.For) and norm(n.iter) == "events"]
    ok = len(loops) == 1 and not any(isinstance(n, (ast.Break, ast.Return)) for s in loops[0].body for n in ast.walk(s))
    ctx.check("C09.R6", wh, "every event of the batch is visited", ok, "the event loop must not stop early", loops[0] if loops else he)
    # _window_updated decision table
    wu = repo.func(M, "H2Protocol._window_updated")
    ww = f"{M}:H2Protocol._window_updated"
    unb = find_calls(wu, "self.priority.unblock")
    all_sites = [c for c in unb if any(isinstance(a, (ast.For,)) for a in _anc(c, wu))]
    one_sites = [c for c in unb if c not in all_sites]
    ok_all = len(all_sites) == 1
    if ok_all:
        loop = [a for a in _anc(all_sites[0], wu) if isinstance(a, ast.For)][0]
        ok_all = "self.stream_buffers" in provenance(loop.iter, wu).leaves
        for sid in (None, 0):
            try:
                ok_all = ok_all and all(bool(eval_expr(t, {"stream_id": sid, "self.stream_buffers": {1, 3}})) == p for t, p in guards(loop))
            except Unknown as u:
                ok_all = False
        for sid in (1, 5):
            try:
                if all(bool(eval_expr(t, {"stream_id": sid, "self.stream_buffers": {1, 3}})) == p for t, p in guards(loop)):
                    ok_all = False
            except Unknown:
                ok_all = False
    ctx.check("C09.R6", ww, "stream_id None or 0 (connection-level WINDOW_UPDATE) -> unblock every buffered stream", ok_all, "connection-level window updates (stream 0) and SETTINGS changes (None) must unblock all streams, stream-level ones must not", all_sites[0] if all_sites else wu)
    ok_one = len(one_sites) == 1 and norm(arg(one_sites[0], 0)) == "stream_id"
    if ok_one:
        try:
            t_in = all(bool(eval_expr(t, {"stream_id": 3, "self.stream_buffers": {1, 3}})) == p for t, p in guards(one_sites[0]))
            t_out = all(bool(eval_expr(t, {"stream_id": 5, "self.stream_buffers": {1, 3}})) == p for t, p in guards(one_sites[0]))
            ok_one = t_in and not t_out
        except Unknown:
            ok_one = False
    ctx.check("C09.R6", ww, "stream-level update -> unblock(stream_id) iff the stream has a buffer", ok_one, "a stream-level WINDOW_UPDATE must unblock exactly that stream when it is known", one_sites[0] if one_sites else wu)
    sets = find_calls(wu, "self.has_data.set")
    ctx.check("C09.R6", ww, "has_data.set() unconditional", len(sets) >= 1 and any(not guard_atoms(c) for c in sets), "the send task must be woken after every window update", wu)

    # R7
    arm = arm_for(he, "event", "DataReceived")
    ctx.need(arm is not None, "DataReceived arm missing")
    acks = find_in(arm.body, "self.connection.acknowledge_received_data")
    ok = len(acks) == 1 and norm(arg(acks[0], 0, "acknowledged_size")) == "event.flow_controlled_length" and norm(arg(acks[0], 1, "stream_id")) == "event.stream_id"
    ctx.check("C09.R7", wh, "acknowledge_received_data(event.flow_controlled_length, event.stream_id)", ok, "received DATA must be acknowledged with its flow-controlled length for its own stream", acks[0] if acks else arm)
    gh = CFG(he)
    tests = [n.id for n in gh.nodes if n.kind == "test" and n.ast is arm]
    ok = False
    wit = None
    if tests and acks:
        # from the True edge of the arm test, every path back to the loop head / exit passes the ack
        starts = [m for m, lab in gh.succ[tests[0]] if lab == "T"]
        heads = [n.id for n in gh.nodes if n.kind == "iter"] + [gh.exit]
        ok = True
        for s in starts:
            if has_call("self.connection.acknowledge_received_data")(gh.node(s)):
                continue
            # handled exceptions (e.g. the KeyError of a forgotten stream) continue to the next event:
            # those paths must acknowledge too; only paths that leave the function are excluded
            wit = gh.must_pass(s, heads, has_call("self.connection.acknowledge_received_data"), skip_labels=("uncaught",))
            if wit is not None:
                ok = False
    ctx.check("C09.R7", wh, "DataReceived arm always acknowledges", ok, "a path through the DataReceived arm skips the acknowledgement (client upload window never reopens): " + explain(gh, wit), arm)

    # R8
    n8 = 0
    for name, fn in h2p.items():
        muts = [c for c in calls(fn) if call_name(c) in MUTATORS]
        if not muts:
            continue
        g = CFG(fn)
        flushed_by_caller = name in ("_handle_events",)
        for nid in g.where(has_call(*MUTATORS)):
            n8 += 1
            wit = g.must_pass(nid, [g.exit], has_call("self._flush"), skip_labels=("exc", "uncaught", "catch"))
            ctx.check("C09.R8", f"{M}:H2Protocol.{name}", f"flush after {norm(g.node(nid).ast).splitlines()[0][:60]}", wit is None, "bytes produced by h2 are not flushed on: " + explain(g, wit), g.node(nid).ast)
    fl = repo.func(M, "H2Protocol._flush")
    d2s = find_calls(fl, "self.connection.data_to_send")
    snd = [c for c in calls(fl) if call_name(c) == "self.send"]
    ok = len(d2s) == 1 and len(snd) == 1 and "data_to_send()" in provenance(snd[0].args[0], fl).ops and "RawData()" in provenance(snd[0].args[0], fl).ops
    ctx.check("C09.R8", f"{M}:H2Protocol._flush", "send(RawData(connection.data_to_send()))", ok, "_flush must hand all pending h2 bytes to the transport", fl)

    # R9
    push = repo.func(M, "StreamBuffer.push")
    pop = repo.func(M, "StreamBuffer.pop")
    ext = [c for c in calls(push) if call_name(c) == "self.buffer.extend"]
    ctx.check("C09.R9", f"{M}:StreamBuffer.push", "buffer.extend(data)", len(ext) == 1 and norm(arg(ext[0], 0)) == "data", "push must append the chunk at the end of the buffer", push)
    rets = [n for n in walk_local(pop) if isinstance(n, ast.Return)]
    pd = provenance(rets[0].value, pop) if rets else None
    dl = [n for n in walk_local(pop) if isinstance(n, ast.Delete)]
    lv = "length"
    if len(dl) == 1 and isinstance(dl[0].targets[0], ast.Subscript) and isinstance(dl[0].targets[0].slice, ast.Slice) and isinstance(dl[0].targets[0].slice.upper, ast.Name):
        lv = dl[0].targets[0].slice.upper.id
    ok = bool(rets) and "self.buffer" in pd.leaves and f"[:{lv}]" in pd.ops
    ok = ok and len(dl) == 1 and norm(dl[0].targets[0]) == f"self.buffer[:{lv}]"
    ln = provenance(ast.Name(id=lv, ctx=ast.Load()), pop)
    ok = ok and "min()" in ln.ops and "max_length" in ln.leaves and "len()" in ln.ops
    ctx.check("C09.R9", f"{M}:StreamBuffer.pop", "returns and removes buffer[:min(len, max_length)]", ok, f"pop returns {pd}; length {ln}", pop)
    pushes = find_calls(ss, "self.stream_buffers[].push")
    ok = len(pushes) == 1 and norm(pushes[0].func.value) == "self.stream_buffers[event.stream_id]" and norm(arg(pushes[0], 0)) == "event.data"
    ctx.check("C09.R9", f"{M}:H2Protocol.stream_send", "Body/Data -> stream_buffers[event.stream_id].push(event.data)", ok, "body chunks must be queued on their own stream's buffer", pushes[0] if pushes else ss)
    cs_ = repo.func(M, "H2Protocol._create_stream")
    mk = [n for n in walk_local(cs_) if isinstance(n, ast.Assign) and norm(n.targets[0]) == "self.stream_buffers[request.stream_id]"]
    ctx.check("C09.R9", f"{M}:H2Protocol._create_stream", "one StreamBuffer per stream id", len(mk) == 1 and isinstance(mk[0].value, ast.Call) and call_name(mk[0].value) == "StreamBuffer" and not guard_atoms(mk[0]), "each stream needs its own buffer", mk[0] if mk else cs_)

    ctx.assume("not decided: completeness/order of delivery under every task interleaving; fairness of priority.PriorityTree; correctness of h2's own window accounting")
    ctx.assume("EventWrapper.clear/set are non-yielding awaits in both workers (checked by C06.R3)")


def _anc(node, stop):
    from ..astq import ancestors

    out = []
    for a in ancestors(node):
        out.append(a)
        if a is stop:
            break
    return out


def _passes(g: CFG, start: int, goals, call: str) -> bool:
    """True if some path start ->* goal passes through a node calling `call`."""
    pred = has_call(call)
    mids = [n for n in g.reach([start]) if pred(g.node(n))]
    for m in mids:
        if set(goals) & g.reach([m], include_starts=False):
            # but only if m reachable without first passing a goal
            if m in g.reach([start], avoid=lambda n: n.id in set(goals)):
                return True
    return False
