"""C03 — exactly-once disconnect and access record; sends after close are no-ops."""
from __future__ import annotations

import ast

from ..astq import ancestors, arg, call_name, calls, dotted, find_calls, guard_atoms, guards, kwarg, norm, walk_local
from ..cfg import CFG
from ..core import Alias, Ctx
from .common import arm_for, explain, find_in, has_call, has_stmt


def run(ctx: Ctx) -> None:
    if getattr(ctx, "_depth", 0) >= 2:
        return  # alias of an alias: not followed (breaks import cycles between rule modules)
    repo = ctx.repo
    ctx.rule("C03.R5", "in each stream's StreamClosed arm `self.closed = True` is executed before the first await, so a second (re-entrant or concurrent) StreamClosed / handle() finds the stream already closed", floor=2)
    ctx.rule("C03.R6", "after a protocol's _close_stream the stream is no longer registered (H11: self.stream = None; H2: popped before it is notified), on every path", floor=2)
    ctx.rule("C03.R9", "handle() of both streams returns at once when closed; WSStream.app_send returns at once when closed; HTTPStream.app_send(None) has no effect when closed", floor=4)
    ctx.rule("C03.R10", "a failed transport write is absorbed and reported to the protocol as Closed instead of being raised into the application's send (same analysis as C08.R5 / C04.R1 on the write path)", floor=1)

    for mod, cls in (("protocol.http_stream", "HTTPStream"), ("protocol.ws_stream", "WSStream")):
        hd = repo.func(mod, f"{cls}.handle")
        w = f"{mod}:{cls}.handle"
        arm = arm_for(hd, "event", "StreamClosed")
        ctx.need(arm is not None, f"{w}: no StreamClosed arm")
        first_await = None
        closed_set = None
        for s in arm.body:
            for n in ast.walk(s):
                if isinstance(n, ast.Await) and first_await is None:
                    first_await = n
            if isinstance(s, ast.Assign) and dotted(s.targets[0]) == "self.closed" and norm(s.value) == "True" and closed_set is None:
                closed_set = s
        ok = closed_set is not None and (first_await is None or (closed_set.lineno, closed_set.col_offset) < (first_await.lineno, first_await.col_offset)) and any(closed_set is s for s in arm.body)
        ctx.check("C03.R5", w, "closed = True before the first await of the StreamClosed arm", ok,
                  "the stream marks itself closed only after awaiting (access log / app_put): a second StreamClosed arriving during that await (trio checkpoints on every channel send) passes the guard again - second disconnect, second access record", closed_set or arm)
        # R9
        first = hd.body[0]
        ok = isinstance(first, ast.If) and norm(first.test) == "self.closed" and isinstance(first.body[0], ast.Return) and first.body[0].value is None
        ctx.check("C03.R9", w, "handle: `if self.closed: return` first", ok, "events for a closed stream must be ignored", first)
    aps = repo.func("protocol.ws_stream", "WSStream.app_send")
    first = aps.body[0]
    ok = isinstance(first, ast.If) and norm(first.test) == "self.closed" and isinstance(first.body[-1], ast.Return)
    ctx.check("C03.R9", "protocol.ws_stream:WSStream.app_send", "app_send: `if self.closed: return` first", ok, "messages after closure must be accepted silently", first)
    aph = repo.func("protocol.http_stream", "HTTPStream.app_send")
    none_arm = [n for n in walk_local(aph) if isinstance(n, ast.If) and norm(n.test) == "message is None"]
    ok = len(none_arm) == 1
    if ok:
        # everything the exit does (calls, state changes) happens only while not closed
        effects = [n for st in none_arm[0].body for n in ast.walk(st) if isinstance(n, (ast.Await, ast.Assign, ast.AugAssign)) or (isinstance(n, ast.Expr) and isinstance(n.value, ast.Call))]
        ok = bool(effects) and all(("self.closed", False) in guard_atoms(n, stop=none_arm[0]) for n in effects if not isinstance(getattr(n, "_parent", None), ast.Await))
    ctx.check("C03.R9", "protocol.http_stream:HTTPStream.app_send", "app_send(None) acts only while not closed", ok, "the application's exit after closure must have no effect", none_arm[0] if none_arm else aph)

    # R6
    cs11 = repo.func("protocol.h11", "H11Protocol._close_stream")
    g = CFG(cs11)
    hn = g.where(has_call("self.stream.handle"))
    clear = has_stmt(lambda n: isinstance(n, ast.Assign) and dotted(n.targets[0]) == "self.stream" and norm(n.value) == "None")
    ok = bool(hn) and g.must_pass(hn[0], [g.exit], clear, skip_labels=("exc",)) is None and ("self.stream is not None", True) in guard_atoms(g.node(hn[0]).ast)
    ctx.check("C03.R6", "protocol.h11:H11Protocol._close_stream", "StreamClosed delivered to the registered stream, then self.stream = None", ok, "the HTTP/1 stream slot is not cleared after closing", cs11)
    cs2 = repo.func("protocol.h2", "H2Protocol._close_stream")
    pops = [c for c in calls(cs2) if call_name(c) == "self.streams.pop"]
    hs = [c for c in calls(cs2) if isinstance(c.func, ast.Attribute) and c.func.attr == "handle" and "StreamClosed" in norm(c)]
    from ..astq import expand_locals

    recv = norm(expand_locals(hs[0].func.value, cs2)) if hs else ""
    ok = len(pops) == 1 and len(hs) == 1 and (pops[0].lineno, pops[0].col_offset) <= (hs[0].lineno, hs[0].col_offset) and ("stream_id in self.streams", True) in guard_atoms(pops[0]) and recv == "self.streams.pop(stream_id)"
    ok = ok and guard_atoms(hs[0]) == {("stream_id in self.streams", True)} and isinstance(getattr(hs[0], "_parent", None), ast.Await)
    ctx.check("C03.R6", "protocol.h2:H2Protocol._close_stream", "stream popped from the table, then always notified (StreamClosed)", ok, "every registered stream must be told StreamClosed when it is removed (an extra condition - e.g. skipping idle streams - leaves a closed WebSocket's application without its websocket.disconnect); the pop comes first so that a second close finds nothing", cs2)

    # R10
    from . import c08

    c08.run(Alias(ctx, "C03.R10", "write failure classes (asyncio: ConnectionError/RuntimeError; trio: BrokenResourceError/ClosedResourceError) are caught around the transport write and turned into protocol.handle(Closed()) (C08.R5)", only={"C08.R5"}))

    c08.run(Alias(ctx, "C03.R11", "every normal exit of both read loops reports Closed to the protocol, which is what produces the application's disconnect message (C08.R4)", only={"C08.R4"}, where=["TCPServer._read_data"]))
    from . import c04

    c04.run(Alias(ctx, "C03.R12", "closure is absorbed, not raised: no closure-class exception (completed/closed buffer, forgotten stream, h2 stream errors, transport failures) escapes the protocols' stream_send into the application's send (C04.R1 on the stream_send / protocol_send roots)", only={"C04.R1"}, where=["stream_send", "protocol_send", "StreamBuffer"]))

    from . import c06

    c06.run(Alias(ctx, "C03.R14", "HTTP/1 recycling tears the finished stream down (StreamClosed, slot cleared) before the parked reader is released or the cycle restarted - otherwise the next pipelined request's stream is installed first and then wiped: its application never gets http.disconnect (C06.R4)", only={"C06.R4"}))
    from . import c10

    c10.run(Alias(ctx, "C03.R15", "WebSocket: every CloseConnection event - the client's own close or its acknowledgement of the server's - ends the stream (StreamClosed), which is what produces websocket.disconnect and lets the transport be closed (C10.R5)", only={"C10.R5"}))
    from . import c16

    c16.run(Alias(ctx, "C03.R13", "both workers realise the same write path, read loop and close sequence (C16 skeletons for TCPServer.protocol_send/_read_data/_close/_initiate_server_close)", only={"C16.R2"}, where=["TCPServer.protocol_send", "TCPServer._read_data", "TCPServer._close", "TCPServer._initiate_server_close"]))
    ctx.assume("not decided: interleavings in which a handle() suspended at an await resumes after another task closed the stream (needs schedule exploration); only the structural guard (closed set before the first await) is checked")
    from . import typestate_rules

    typestate_rules.run_for(ctx, "C03")
