"""C17 — WSGI adapter conforms to PEP 3333 (structural clauses)."""
from __future__ import annotations

import ast

from ..astq import ancestors, arg, call_name, calls, dotted, find_calls, guard_atoms, guards, kwarg, norm, provenance, walk_local
from ..cfg import CFG, stmt_has
from ..core import Ctx
from ..pred import Unknown, eval_expr
from .common import explain, has_call, has_stmt

M = "app_wrappers"


def _bridge_waits(cs: ast.AST) -> bool:
    """The thread->loop bridge returns `<run_coroutine_threadsafe(func(*args), loop)>.result()`:
    the (single) return value, with single-use locals expanded, is a `.result()` call on the future."""
    from ..astq import expand_locals

    rets = [n for n in walk_local(cs) if isinstance(n, ast.Return)]
    if len(rets) != 1 or rets[0].value is None:
        return False
    v = expand_locals(rets[0].value, cs)
    return isinstance(v, ast.Call) and isinstance(v.func, ast.Attribute) and v.func.attr == "result" and not v.args and isinstance(v.func.value, ast.Call) and call_name(v.func.value) == "asyncio.run_coroutine_threadsafe" and norm(v.func.value.args[0]) == "func(*args)"


def run(ctx: Ctx) -> None:
    if getattr(ctx, "_depth", 0) >= 2:
        return  # alias of an alias: not followed (breaks import cycles between rule modules)
    repo = ctx.repo
    ctx.rule("C17.R1", "the WSGI application is called exactly once per request: one call site self.app(environ, start_response), not in a loop", floor=1)
    ctx.rule("C17.R2", "run_app runs off the event loop: it is referenced only as the argument of sync_spawn, and its sends go through call_soon; the loop-side bridge waits for each send to complete (ordering)", floor=4)
    ctx.rule("C17.R3", "close(): from the statement that binds the iterable, every exit of run_app (normal and exceptional) passes through the guarded close() exactly once", floor=2)
    ctx.rule("C17.R4", "lazy start_response: the response_started test is evaluated only after iteration has begun (first chunk) or after the iterable is exhausted; http.response.start precedes the first body chunk and is sent once", floor=3)
    ctx.rule("C17.R5", "the ACCUMULATED body length is compared with max_body_size; exceeding it sends 400 and returns without building the environ or calling the application", floor=3)
    ctx.rule("C17.R6", "websocket scopes are refused with websocket.close; lifespan scopes return; http scopes go to handle_http with all five callables", floor=3)
    ctx.rule("C17.R7", "environ provenance: REQUEST_METHOD, SCRIPT_NAME, PATH_INFO (root_path stripped, never empty), QUERY_STRING, SERVER_PROTOCOL, wsgi.input <- BytesIO(body), CONTENT_LENGTH/CONTENT_TYPE/HTTP_* with repeated headers comma-joined", floor=9)
    ctx.rule("C17.R8", "start_response: status code parsed from the status line, header names lower-cased and latin-1 encoded, values latin-1 encoded; body chunks sent with more_body=True and the response is finished once by handle_http", floor=4)

    ra = repo.func(M, "WSGIWrapper.run_app")
    w = f"{M}:WSGIWrapper.run_app"
    appc = [c for c in calls(ra) if call_name(c) == "self.app"]
    ok = len(appc) == 1 and [norm(a) for a in appc[0].args] == ["environ", "start_response"] and not any(isinstance(a, (ast.For, ast.While)) for a in ancestors(appc[0])) and not guard_atoms(appc[0])
    ctx.check("C17.R1", w, "self.app(environ, start_response) once", ok, f"{len(appc)} call sites of the WSGI application", appc[0] if appc else ra)

    # R2
    hh = repo.func(M, "WSGIWrapper.handle_http")
    wh = f"{M}:WSGIWrapper.handle_http"
    refs = []
    for _, q, fn in repo.all_functions():
        for n in walk_local(fn):
            if isinstance(n, ast.Attribute) and n.attr == "run_app":
                refs.append((q, n))
    sp = [c for c in calls(hh) if call_name(c) == "sync_spawn"]
    ok = len(refs) == 1 and len(sp) == 1 and norm(arg(sp[0], 0)) == "self.run_app" and norm(arg(sp[0], 1)) == "environ" and norm(arg(sp[0], 2)) == "partial(call_soon, send)" and isinstance(getattr(sp[0], "_parent", None), ast.Await)
    ctx.check("C17.R2", wh, "await sync_spawn(self.run_app, environ, partial(call_soon, send))", ok, f"run_app referenced {len(refs)} times; it must only ever run through sync_spawn (a thread)", sp[0] if sp else hh)
    for mod, q in (("asyncio.task_group", "TaskGroup.spawn_app._call_soon"), ("asyncio.lifespan", "Lifespan.handle_lifespan._call_soon")):
        cs = repo.find(mod, q)
        ok = cs is not None
        if ok:
            rets = [n for n in walk_local(cs) if isinstance(n, ast.Return)]
            ok = _bridge_waits(cs)
        ctx.check("C17.R2", f"{mod}:{q}", "thread -> loop bridge waits for the coroutine (future.result())", bool(ok), "a fire-and-forget bridge lets response.start and the body chunks run out of order: the chunks are rejected in state REQUEST and lost", cs)
    t = repo.func("trio.task_group", "TaskGroup.spawn_app")
    ok = "trio.to_thread.run_sync" in norm(t) and "trio.from_thread.run" in norm(t)
    ctx.check("C17.R2", "trio.task_group:TaskGroup.spawn_app", "sync_spawn = trio.to_thread.run_sync, call_soon = trio.from_thread.run", ok, "trio bridge changed", t)
    a = repo.func("asyncio.task_group", "TaskGroup.spawn_app")
    ok = "partial(self._loop.run_in_executor, None)" in norm(a)
    ctx.check("C17.R2", "asyncio.task_group:TaskGroup.spawn_app", "sync_spawn = loop.run_in_executor(None, ...)", ok, "asyncio sync_spawn changed", a)

    for cls_ in ("AsyncioWSGIMiddleware", "TrioWSGIMiddleware"):
        mw = repo.func("middleware.wsgi", f"{cls_}.__call__")
        cw = [c for c in calls(mw) if call_name(c) == "self.wsgi_app"]
        ok = len(cw) == 1 and len(cw[0].args) == 5 and [norm(a) for a in cw[0].args[:3]] == ["scope", "receive", "send"] and isinstance(getattr(cw[0], "_parent", None), ast.Await)
        if cls_.startswith("Asyncio"):
            cs = repo.find("middleware.wsgi", f"{cls_}.__call__._call_soon")
            ok = ok and cs is not None and _bridge_waits(cs) and norm(cw[0].args[3]) == "partial(loop.run_in_executor, None)" and norm(cw[0].args[4]) == "_call_soon"
        else:
            ok = ok and [norm(a) for a in cw[0].args[3:]] == ["trio.to_thread.run_sync", "trio.from_thread.run"]
        ctx.check("C17.R2", f"middleware.wsgi:{cls_}.__call__", "wsgi_app(scope, receive, send, <thread spawn>, <blocking loop bridge>)", ok, "the WSGI middleware must run the application in a thread and wait for each send", mw)
    mwi = repo.func("middleware.wsgi", "_WSGIMiddleware.__init__")
    ok = "self.wsgi_app = WSGIWrapper(wsgi_app, max_body_size)" in norm(mwi)
    ctx.check("C17.R2", "middleware.wsgi:_WSGIMiddleware.__init__", "WSGIWrapper(wsgi_app, max_body_size)", ok, "the middleware must wrap the application with its body limit", mwi)

    wa = repo.func("utils", "wrap_app")
    src = norm(wa)
    rets = [n for n in walk_local(wa) if isinstance(n, ast.Return)]
    modes = {norm(n.value): guard_atoms(n) for n in walk_local(wa) if isinstance(n, ast.Assign) and dotted(n.targets[0]) == "mode"}
    ok = modes == {"'asgi'": {("mode is None", True), ("is_asgi(app)", True)}, "'wsgi'": {("mode is None", True), ("is_asgi(app)", False)}} and len(rets) == 2
    if ok:
        a_ = [r for r in rets if "ASGIWrapper" in norm(r.value)]
        w_ = [r for r in rets if "WSGIWrapper" in norm(r.value)]
        ok = len(a_) == 1 and len(w_) == 1 and ("mode == 'asgi'", True) in guard_atoms(a_[0]) and ("mode == 'asgi'", False) in guard_atoms(w_[0]) and "wsgi_max_body_size" in norm(w_[0].value)
    ctx.check("C17.R6", "utils:wrap_app", "mode asgi -> ASGIWrapper; wsgi (or not a coroutine callable) -> WSGIWrapper(app, wsgi_max_body_size)", ok, "application kind detection / wrapping changed", wa)
    ia = repo.func("utils", "is_asgi")
    src = norm(ia)
    ok = "inspect.iscoroutinefunction(app)" in src and "inspect.iscoroutinefunction(app.__call__)" in src and src.rstrip().endswith("return False")
    ctx.check("C17.R6", "utils:is_asgi", "coroutine function or object with a coroutine __call__ is ASGI, everything else WSGI", ok, "a WSGI callable would be treated as ASGI (or the reverse)", ia)

    # R3
    g = CFG(ra)
    bind = g.where(has_stmt(lambda n: isinstance(n, ast.Call) and call_name(n) == "self.app"))
    ctx.need(len(bind) >= 1, f"{w}: application call node not found")
    bind = bind[-1:]
    appcall = [c for c in calls(ra) if call_name(c) == "self.app"]
    par = getattr(appcall[-1], "_parent", None) if appcall else None
    direct = isinstance(par, ast.Assign) and len(par.targets) == 1 and isinstance(par.targets[0], ast.Name) and par.value is appcall[-1]
    rb = par.targets[0].id if direct else "response_body"
    ctx.check("C17.R3", w, "the object returned by the application is the one iterated and closed (bound directly, not wrapped)", direct and [norm(a) for a in appcall[-1].args] == ["environ", "start_response"], "the application's return value is wrapped (iter(...), list(...), a generator) before it is kept: close() would be looked up on the wrapper - a response object whose __iter__ returns a separate iterator never gets its close() called", appcall[-1] if appcall else ra)
    _cl = has_call(f"{rb}.close")
    closep = lambda n: _cl(n) or (n.kind == "test" and norm(n.ast.test) == f"hasattr({rb}, 'close')")
    # start after the binding statement completed normally
    nxt = [m for m, lab in g.succ[bind[0]] if lab == "next"]
    wit = None
    for s in nxt:
        if closep(g.node(s)):
            continue
        wit = wit or g.must_pass(s, g.exits(), closep)
        # also the start node itself may raise
    start_raises = [m for s in nxt for m, lab in g.succ[s] if lab == "exc"]
    first_unprotected = None
    for s in nxt:
        for m, lab in g.succ[s]:
            if lab == "exc":
                p = g.path(m, set(g.exits()), avoid=closep) if not closep(g.node(m)) else None
                if p is not None or m == g.raise_exit:
                    first_unprotected = [s, m]
    ctx.check("C17.R3", w, "iterable bound -> close() on every exit", wit is None and first_unprotected is None,
              "an exit of run_app skips response_body.close(): " + explain(g, wit or first_unprotected), ra)
    cl = find_calls(ra, f"{rb}.close")
    ok = len(cl) == 1 and (f"hasattr({rb}, 'close')", True) in guard_atoms(cl[0]) and any(isinstance(a_, ast.Try) and any(cl[0] is x for s_ in a_.finalbody for x in ast.walk(s_)) for a_ in ancestors(cl[0]))
    ctx.check("C17.R3", w, "single close() in a finally, guarded by hasattr", ok, "close() must be called exactly once and only if the iterable has it", cl[0] if cl else ra)

    # R4
    tests = [n for n in g.nodes if n.kind == "test" and "response_started" in norm(n.ast.test)]
    iters = [n.id for n in g.nodes if n.kind == "iter" and norm(n.ast.iter) == rb]
    ok = bool(tests) and bool(iters) and all(g.dominates(lambda n: n.id in iters, t_.id) for t_ in tests)
    ctx.check("C17.R4", w, "response_started tested only after iteration began or ended", ok, "start_response is checked right after calling the application: generator (lazy) applications get RuntimeError", tests[0].ast if tests else ra)
    starts = g.where(has_stmt(lambda n: isinstance(n, ast.Call) and call_name(n) == "send" and "http.response.start" in norm(n)))
    bodies = g.where(has_stmt(lambda n: isinstance(n, ast.Call) and call_name(n) == "send" and "http.response.body" in norm(n)))
    ok = bool(starts) and bool(bodies)
    bad_path = None
    if ok:
        from ..cfg import feasible_paths

        flags = sorted({n.targets[0].id for n in walk_local(ra) if isinstance(n, ast.Assign) and isinstance(n.targets[0], ast.Name) and isinstance(n.value, ast.Constant) and isinstance(n.value.value, bool)} - {"response_started"})
        npaths = 0
        for path in feasible_paths(g, bind[0], flags, max_visits=3):
            if path[-1] != g.exit:
                continue
            npaths += 1
            seq = ["S" if n in starts else "B" for n in path if n in starts or n in bodies]
            if seq.count("S") != 1 or seq[0] != "S":
                ok = False
                bad_path = path
                break
        ok = ok and npaths > 0
    ctx.check("C17.R4", w, "http.response.start before the first body chunk, exactly once", ok, "the response head would be missing, late or duplicated on: " + explain(g, [n for n in (bad_path or []) if g.node(n).kind in ("stmt", "test", "iter")][:14]), ra)
    rts = [n for n in walk_local(ra) if isinstance(n, ast.Raise) and "RuntimeError" in norm(n)]
    ok = bool(rts) and all(("response_started", False) in guard_atoms(r) for r in rts) and all(g.dominates(lambda n: n.id in tests_ids(tests), x) for r in rts for x in g.nodes_of(r))
    ctx.check("C17.R4", w, "no start_response by the first chunk / end -> RuntimeError", ok, "an application that never calls start_response must fail loudly", rts[0] if rts else ra)

    # R5
    cmpn = [n for n in walk_local(hh) if isinstance(n, ast.If) and "self.max_body_size" in norm(n.test)]
    ok = len(cmpn) == 1
    detail = ""
    if ok:
        t_ = cmpn[0].test
        for blen, mx, want in ((4, 4, False), (5, 4, True), (0, 0, False), (1, 0, True)):
            try:
                got = bool(eval_expr(t_, {"body": b"x" * blen, "self.max_body_size": mx, "message": {"body": b"x" * blen}}))
            except Unknown as u:
                got = None
            if got != want:
                ok = False
                detail = f"accumulated body {blen} bytes, limit {mx}: rejected={got}, expected {want}"
        p = provenance(t_, hh)
        ok = ok and "len()" in p.ops
        measured = [c for c in ast.walk(t_) if isinstance(c, ast.Call) and dotted(c.func) == "len"]
        ok = ok and len(measured) == 1 and norm(measured[0].args[0]) == "body"
        if not detail and not ok:
            detail = f"limit test is {norm(t_)}: it must measure the accumulated body"
    ctx.check("C17.R5", wh, "len(<accumulated body>) > max_body_size", ok, detail or "limit comparison missing", cmpn[0] if cmpn else hh)
    ext = [c for c in calls(hh) if call_name(c) == "body.extend"]
    ok = len(ext) == 1 and norm(arg(ext[0], 0)) == "message.get('body', b'')" and cmpn and ext[0].lineno < cmpn[0].lineno and any(isinstance(a_, ast.While) for a_ in ancestors(ext[0]))
    ctx.check("C17.R5", wh, "every received chunk is appended before the test", ok, "the body must be accumulated chunk by chunk", ext[0] if ext else hh)
    ok = bool(cmpn)
    if ok:
        body = cmpn[0].body
        txt = [norm(s) for s in body]
        ok = isinstance(body[-1], ast.Return) and any("'status': 400" in t for t in txt) and any("http.response.body" in t for t in txt)
        gh = CFG(hh)
        r = gh.nodes_of(body[-1])
        ok = ok and bool(r) and not any(has_call("sync_spawn")(gh.node(n)) or has_call("_build_environ")(gh.node(n)) for n in gh.reach(r))
    ctx.check("C17.R5", wh, "over the limit: 400, finished, return (application not called)", ok, "an oversized body must be answered 400 without reaching the application", cmpn[0] if cmpn else hh)
    brk = [n for n in walk_local(hh) if isinstance(n, ast.Break)]
    ok = len(brk) == 1 and ("message.get('more_body')", False) in guard_atoms(brk[0])
    ctx.check("C17.R5", wh, "reading stops when more_body is false", ok, "the body loop must end with the last chunk", brk[0] if brk else hh)

    # R6
    cl_ = repo.func(M, "WSGIWrapper.__call__")
    wc = f"{M}:WSGIWrapper.__call__"
    hc = [c for c in calls(cl_) if call_name(c) == "self.handle_http"]
    ok = len(hc) == 1 and [norm(a) for a in hc[0].args] == ["scope", "receive", "send", "sync_spawn", "call_soon"] and ("scope['type'] == 'http'", True) in guard_atoms(hc[0])
    ctx.check("C17.R6", wc, "http -> handle_http(scope, receive, send, sync_spawn, call_soon)", ok, "http scopes must be adapted", hc[0] if hc else cl_)
    wsr = [c for c in calls(cl_) if call_name(c) == "send" and "websocket.close" in norm(c)]
    ok = len(wsr) == 1 and ("scope['type'] == 'websocket'", True) in guard_atoms(wsr[0])
    ctx.check("C17.R6", wc, "websocket -> websocket.close", ok, "WebSocket requests must be refused", wsr[0] if wsr else cl_)
    from ..pred import _Raised as _R17, eval_function as _evf17
    from .common import value_slice as _vs17

    act = _vs17(cl_.body, lambda c_: call_name(c_) in ("self.handle_http", "send"), lambda c_: ast.Constant(value=call_name(c_)), returns="<returns>")
    table17 = {}
    for typ in ("http", "websocket", "lifespan", "bogus"):
        try:
            table17[typ] = _evf17(act, {"__lenient__": True, "scope": {"type": typ}})
        except _R17:
            table17[typ] = "raises"
        except Exception as error:
            table17[typ] = f"not evaluable: {error}"
    okt = table17 == {"http": "self.handle_http", "websocket": "send", "lifespan": table17.get("lifespan"), "bogus": "raises"} and table17.get("lifespan") in ("<returns>", "<no emission>")
    ctx.check("C17.R6", wc, "dispatch table: http -> adapter, websocket -> refused, lifespan -> declined quietly, anything else -> error", okt, f"scope type -> action: {table17}", cl_)

    # R7
    be = repo.func(M, "_build_environ")
    wb = f"{M}:_build_environ"
    env = None
    for n in walk_local(be):
        if isinstance(n, ast.Assign) and dotted(n.targets[0]) == "environ" and isinstance(n.value, ast.Dict):
            env = {norm(k): norm(v) for k, v in zip(n.value.keys, n.value.values)}
    ctx.need(env is not None, f"{wb}: environ dict not found")
    expect = {
        "'REQUEST_METHOD'": "scope['method']",
        "'SCRIPT_NAME'": "script_name.encode('utf8').decode('latin1')",
        "'PATH_INFO'": "path.encode('utf8').decode('latin1')",
        "'QUERY_STRING'": "scope['query_string'].decode('ascii')",
        "'SERVER_PROTOCOL'": "'HTTP/%s' % scope['http_version']",
        "'wsgi.input'": "BytesIO(body)",
        "'wsgi.url_scheme'": "scope.get('scheme', 'http')",
    }
    for k, v in expect.items():
        ctx.check("C17.R7", wb, f"environ[{k}]", env.get(k) == v, f"environ[{k}] is {env.get(k)}, expected {v}", be)
    sn = [n for n in walk_local(be) if isinstance(n, ast.Assign) and dotted(n.targets[0]) == "script_name"]
    pth = [n for n in walk_local(be) if isinstance(n, ast.Assign) and dotted(n.targets[0]) == "path"]
    ok = len(sn) == 1 and norm(sn[0].value) == "scope.get('root_path', '')" and sorted(norm(p.value) for p in pth if norm(p.value) != "path") == sorted(["scope['path']", "path[len(script_name):]", "'/'"])
    slash = [p for p in pth if norm(p.value) == "'/'"]
    ok = ok and len(slash) == 1 and guard_atoms(slash[0]) == {("path.startswith(script_name)", True), ("path == ''", True)} and slash[0].lineno > [p for p in pth if norm(p.value) == "path[len(script_name):]"][0].lineno
    strip = [p for p in pth if norm(p.value) == "path[len(script_name):]"]
    ok = ok and len(strip) == 1 and ("path.startswith(script_name)", True) in guard_atoms(strip[0])
    rs = [n for n in walk_local(be) if isinstance(n, ast.Raise) and "InvalidPathError" in norm(n)]
    ok = ok and len(rs) == 1 and ("path.startswith(script_name)", False) in guard_atoms(rs[0])
    ctx.check("C17.R7", wb, "PATH_INFO = path minus root_path, '/' when empty; outside root_path -> InvalidPathError", ok, f"path handling: {[norm(p.value) for p in pth]}", be)
    # header mapping
    from ..astq import expand_locals
    from ..pred import Unknown as _Unk, eval_expr as _ev

    cn = {}
    ok = True
    for n in walk_local(be):
        if isinstance(n, ast.Assign) and dotted(n.targets[0]) == "corrected_name":
            ga = guard_atoms(n)
            sample = "content-length" if ("name == 'content-length'", True) in ga else "content-type" if ("name == 'content-type'", True) in ga else "x-foo-bar"
            try:
                val = _ev(expand_locals(n.value, be, keep=("name",)), {"name": sample})
            except Exception as error:
                val = f"not evaluable: {error}"
            cn[sample] = val
            if sample == "x-foo-bar" and not ({("name == 'content-length'", False), ("name == 'content-type'", False)} <= ga):
                ok = False
    ok = ok and cn == {"content-length": "CONTENT_LENGTH", "content-type": "CONTENT_TYPE", "x-foo-bar": "HTTP_X_FOO_BAR"}
    nm = [n for n in walk_local(be) if isinstance(n, ast.Assign) and dotted(n.targets[0]) == "name"]
    ok = ok and len(nm) == 1 and "decode('latin1')" in norm(nm[0].value)
    ctx.check("C17.R7", wb, "content-length/content-type/HTTP_* naming", ok, f"header naming: {cn}", be)
    join = [n for n in walk_local(be) if isinstance(n, ast.Assign) and dotted(n.targets[0]) == "value" and "environ[corrected_name]" in norm(n.value)]
    ok = len(join) == 1 and norm(join[0].value) == "environ[corrected_name] + ',' + value" and ("corrected_name in environ", True) in guard_atoms(join[0])
    st = [n for n in walk_local(be) if isinstance(n, ast.Assign) and norm(n.targets[0]) == "environ[corrected_name]"]
    ok = ok and len(st) == 1 and norm(st[0].value) == "value" and join[0].lineno < st[0].lineno
    ctx.check("C17.R7", wb, "repeated headers joined with ','", ok, "repeated request headers must be comma-joined in order", join[0] if join else be)
    bec = [c for c in calls(hh) if call_name(c) == "_build_environ"]
    ok = len(bec) == 1 and [norm(a) for a in bec[0].args] == ["scope", "body"]
    ctx.check("C17.R7", wh, "_build_environ(scope, body)", ok, "environ must be built from this request's scope and buffered body", bec[0] if bec else hh)

    # R8
    sr = repo.find(M, "WSGIWrapper.run_app.start_response")
    ctx.need(sr is not None, "start_response closure not found")
    from ..pred import eval_function as _evf

    pnames = [a.arg for a in sr.args.args]
    ctx.check("C17.R8", w + ".start_response", "start_response(status, response_headers, exc_info=None)", len(pnames) == 3, f"parameters {pnames}", sr)
    hdr_in = [("Content-Type", "text/plain"), ("X-A", "\xfc"), ("x-a", "2")]
    hdr_out = [(b"content-type", b"text/plain"), (b"x-a", b"\xfc"), (b"x-a", b"2")]
    for status, code, started, exc in (("200 OK", 200, False, None), ("404 Not Found", 404, False, None), ("503 Service Unavailable", 503, True, ("type", "value", "tb")), ("500 Oops", 500, False, ("type", "value", "tb"))):
        envp = dict(zip(pnames, [status, hdr_in, exc])) if len(pnames) == 3 else {}
        try:
            out = _evf(sr, {**envp, "response_started": started, "status_code": None, "headers": None}, want_env=True)
            got = (out.get("status_code"), [tuple(h) for h in out.get("headers") or []], out.get("response_started"))
        except Exception as error:
            got = f"raises / not evaluable: {error}"
        ctx.check("C17.R8", w + ".start_response", f"start_response({status!r}, headers, exc_info={'set' if exc else None}) with response_started={started}", got == (code, hdr_out, True),
                  f"records {got}, expected status {code}, headers lower-cased latin-1 in order, response_started=True - and no exception: PEP 3333 lets an application call start_response again with exc_info before any output to replace the response", sr)
    bs = [c for c in calls(ra) if call_name(c) == "send" and "http.response.body" in norm(c)]
    loops_ = [n for n in walk_local(ra) if isinstance(n, ast.For) and norm(n.iter) == rb and isinstance(n.target, ast.Name)]
    ov = loops_[0].target.id if loops_ else "output"
    ok = len(loops_) == 1 and len(bs) == 1 and norm(arg(bs[0], 0)) == "{'type': 'http.response.body', 'body': %s, 'more_body': True}" % ov and any(a is loops_[0] for a in ancestors(bs[0]))
    ss_ = [c for c in calls(ra) if call_name(c) == "send" and "http.response.start" in norm(c)]
    ok = ok and all(norm(arg(c, 0)) == "{'type': 'http.response.start', 'status': status_code, 'headers': headers}" for c in ss_) and bool(ss_)
    ctx.check("C17.R8", w, "chunks sent unmodified with more_body=True; head carries the parsed status and headers", ok, "response mapping changed", ra)
    fin = [c for c in calls(hh) if call_name(c) == "send" and norm(arg(c, 0)) == "{'type': 'http.response.body', 'body': b'', 'more_body': False}"]
    gh = CFG(hh)
    spn = gh.where(has_call("sync_spawn"))
    fn_ = [n for n in gh.where(has_stmt(lambda n: isinstance(n, ast.Call) and call_name(n) == "send" and "'more_body': False" in norm(n))) if n in gh.reach(spn)]
    ok = bool(spn) and gh.must_pass(spn[0], [gh.exit], lambda n: n.id in fn_, skip_labels=("exc",)) is None
    ctx.check("C17.R8", wh, "after the application ran the response is finished once (more_body=False)", ok, "the response would never end", hh)

    # a failing application must not get its response completed for it
    ctx.rule("C17.R9", "when the WSGI application raises (sync_spawn propagates the exception) the adapter does not send the final more_body=False chunk: the failure reaches the server's application wrapper, which aborts the response instead of completing it", floor=1)
    exc_succ = [m for m, lab in gh.succ[spn[0]] if lab == "exc"] if spn else []
    reach_exc = gh.reach(exc_succ, include_starts=True) if exc_succ else set()
    finishing = gh.where(has_stmt(lambda n: isinstance(n, ast.Call) and call_name(n) == "send" and "'more_body': False" in norm(n)))
    bad = [n for n in finishing if n in reach_exc]
    ctx.check("C17.R9", wh, "application failure does not reach the finishing send", bool(spn) and not bad, "the final empty body chunk is sent on the exceptional path too (finally / handler): a WSGI application that raises after its first chunk yields a response that parses as complete", gh.node(bad[0]).ast if bad else hh)

    ctx.assume("not decided: value-level equality of environ entries for arbitrary inputs (unicode paths), thread-pool behaviour, PEP 3333 exc_info semantics")


def tests_ids(tests):
    return {t.id for t in tests}
