"""C15 — graceful shutdown orderly and bounded (structural clauses)."""
from __future__ import annotations

import ast

from ..astq import ancestors, arg, call_name, calls, dotted, find_calls, guard_atoms, guards, kwarg, norm, provenance, walk_local
from ..cfg import CFG, stmt_has
from ..core import Ctx
from ..pred import guards_table
from .common import arm_for, explain, find_in, has_call, has_stmt


def run(ctx: Ctx) -> None:
    if getattr(ctx, "_depth", 0) >= 2:
        return  # alias of an alias: not followed (breaks import cycles between rule modules)
    repo = ctx.repo
    ctx.rule("C15.R1", "asyncio: every exit of the trigger wait sets `terminated`, closes the listeners, waits for connection tasks at most config.graceful_timeout, then runs lifespan shutdown; nothing that waits for connection handlers precedes the bounded wait", floor=5)
    ctx.rule("C15.R2", "trio: every exit of the trigger nursery sets `terminated` and puts a deadline of now + config.graceful_timeout on the nursery that owns the connection handlers", floor=3)
    ctx.rule("C15.R4", "HTTP/2 under termination: new streams are reset and MAX_CONCURRENT_STREAMS set to 0; when the last stream closes the connection is closed (GOAWAY) and flushed", floor=4)
    ctx.rule("C15.R5", "HTTP/1: no recycling after termination (same rule as C06.R1)", floor=1)
    ctx.rule("C15.R6", "both shutdown sources (shutdown_trigger, worker max_requests) are raced and both ShutdownError / KeyboardInterrupt end the wait without propagating", floor=4)

    # ---- asyncio
    ws = repo.func("asyncio.run", "worker_serve")
    w = "asyncio.run:worker_serve"
    g = CFG(ws)
    tg = [n.id for n in g.nodes if n.kind == "with_enter" and norm(n.ast.items[0].context_expr) == "TaskGroup()"]
    ctx.need(len(tg) == 1, f"{w}: trigger TaskGroup not found")
    cover = [t for t in walk_local(ws) if isinstance(t, ast.Try) and any(x is g.node(tg[0]).ast for s_ in t.body for x in ast.walk(s_))]
    ok = bool(cover) and bool(cover[0].finalbody)
    pre = []
    if ok:
        idx = next((i for i, s_ in enumerate(cover[0].finalbody) if norm(s_) == "await context.terminated.set()"), None)
        ok = idx is not None
        if ok:
            pre = cover[0].finalbody[:idx]
            ok = all(isinstance(s_, ast.Expr) and ".log." in norm(s_) for s_ in pre)
    ctx.check("C15.R1", w, "trigger wait -> terminated.set() first in the covering finally", ok, "an exit of the trigger wait leaves `terminated` unset (or something that can fail / block runs before it): idle connections are not closed and new requests still accepted", cover[0] if cover else ws)
    term = g.where(has_call("context.terminated.set"))
    closes = g.where(has_call("server.close"))
    waitn = g.where(has_call("asyncio.wait_for"))
    sdn = g.where(has_call("lifespan.wait_for_shutdown"))
    ok = bool(term) and bool(closes) and bool(waitn) and bool(sdn)
    order_ok = (
        ok
        and all(g.dominates(lambda n: n.id in term, c, skip_labels=("exc", "uncaught")) for c in closes + waitn)
        and not any(g.path(x, set(closes), skip_labels=("exc", "uncaught")) for x in waitn)
        and all(g.dominates(lambda n: n.id in waitn, x, skip_labels=("exc", "uncaught")) for x in sdn)
    )
    ctx.check("C15.R1", w, "order: terminated.set() -> server.close() -> bounded wait", bool(order_ok), "shutdown steps are out of order", ws)
    wf = [c for c in calls(ws) if call_name(c) == "asyncio.wait_for"]
    ok = len(wf) == 1 and norm(arg(wf[0], 1, "timeout")) == "config.graceful_timeout" and "gather()" in provenance(arg(wf[0], 0), ws).ops and any(call_name(c) == "asyncio.gather" and [norm(a) for a in c.args] == ["*server_tasks"] for c in calls(ws))
    ctx.check("C15.R1", w, "wait_for(gather(*server_tasks), config.graceful_timeout)", ok, "the wait for connections must be bounded by graceful_timeout and cover all connection tasks", wf[0] if wf else ws)
    hs = [h for t in walk_local(ws) if isinstance(t, ast.Try) and wf and any(wf[0] is x for s in t.body for x in ast.walk(s)) for h in t.handlers]
    ok = bool(hs) and any("TimeoutError" in norm(h.type) for h in hs)
    ctx.check("C15.R1", w, "grace timeout swallowed (remaining tasks are cancelled by wait_for)", ok, "expiry of the grace period must not abort the shutdown sequence", ws)
    # server_tasks membership: each connection task registers itself
    cb = repo.find("asyncio.run", "worker_serve._server_callback")
    ok = cb is not None and "server_tasks.add(task)" in norm(cb) and "task.add_done_callback(server_tasks.discard)" in norm(cb) and "asyncio.current_task" in norm(cb)
    ctx.check("C15.R1", w + "._server_callback", "connection tasks register in server_tasks", bool(ok), "connections not in server_tasks are neither awaited nor cancelled at shutdown", cb or ws)
    # unbounded awaits before the bounded wait
    bad = []
    for n in g.nodes:
        if n.kind in ("stmt",) and n.ast is not None and stmt_has(n, lambda x: isinstance(x, ast.Await)):
            if n.id in term or n.id in waitn:
                continue
            # between terminated.set and wait_for
            if g.dominates(lambda m: m.id in term, n.id, skip_labels=("exc", "uncaught")) and waitn and any(g.path(n.id, {x}, skip_labels=("exc", "uncaught")) for x in waitn) and n.id in g.reach(term, skip_labels=("exc", "uncaught")):
                bad.append(n)
    for n in bad:
        txt = norm(n.ast)
        ctx.check("C15.R1", w, f"await before the bounded wait: {txt[:40]}", False,
                  "Server.wait_closed() waits for every active connection on CPython >= 3.12: one stuck request keeps serve() from ever reaching the graceful_timeout-bounded wait", n.ast)
    if not bad:
        ctx.check("C15.R1", w, "no unbounded await before the bounded wait", True, "", ws)

    # ---- trio
    wt = repo.func("trio.run", "worker_serve")
    w2 = "trio.run:worker_serve"
    g2 = CFG(wt)
    tn = [n.id for n in g2.nodes if n.kind == "with_enter" and "strict_exception_groups=True" in norm(n.ast.items[0].context_expr)]
    ctx.need(len(tn) == 1, f"{w2}: trigger nursery not found")
    wit = g2.must_pass(tn[0], g2.exits(), has_call("context.terminated.set"))
    ctx.check("C15.R2", w2, "trigger nursery -> terminated.set() on every exit", wit is None, "an exit leaves `terminated` unset: " + explain(g2, wit), wt)
    dl = [n for n in walk_local(wt) if isinstance(n, ast.Assign) and norm(n.targets[0]) == "server_nursery.cancel_scope.deadline"]
    ok = len(dl) == 1 and norm(dl[0].value) == "trio.current_time() + config.graceful_timeout"
    ctx.check("C15.R2", w2, "server_nursery deadline = now + config.graceful_timeout", ok, f"deadline set as {[norm(d.value) for d in dl]}", dl[0] if dl else wt)
    hn = [c for c in calls(wt) if "handler_nursery=server_nursery" in norm(c)]
    cover = [t for t in walk_local(wt) if isinstance(t, ast.Try) and any(x is g2.node(tn[0]).ast for s_ in t.body for x in ast.walk(s_))]
    fb = [norm(s_) for s_ in cover[0].finalbody] if cover else []
    ok = bool(cover) and "await context.terminated.set()" in fb and any(f.startswith("server_nursery.cancel_scope.deadline =") for f in fb) and len(hn) >= 1
    ctx.check("C15.R2", w2, "deadline set in the finally that covers the trigger nursery, on the nursery that owns the handlers", ok, f"finally body: {fb}", cover[0] if cover else wt)

    # ---- R4 h2
    M2 = "protocol.h2"
    he = repo.func(M2, "H2Protocol._handle_events")
    rs = find_calls(he, "self.connection.reset_stream")
    us = find_calls(he, "self.connection.update_settings")
    ok = len(rs) == 1 and len(us) == 1 and ("self.context.terminated.is_set()", True) in guard_atoms(rs[0]) and ("self.context.terminated.is_set()", True) in guard_atoms(us[0]) and norm(arg(rs[0], 0)) == "event.stream_id" and "MAX_CONCURRENT_STREAMS: 0" in norm(us[0])
    ctx.check("C15.R4", f"{M2}:H2Protocol._handle_events", "terminated: reset_stream(event.stream_id) + MAX_CONCURRENT_STREAMS: 0", ok, "new HTTP/2 streams must be refused after shutdown began", rs[0] if rs else he)
    cs = find_calls(he, "self._create_stream")
    ok = len(cs) == 1 and ("self.context.terminated.is_set()", False) in guard_atoms(cs[0])
    ctx.check("C15.R4", f"{M2}:H2Protocol._handle_events", "no stream is created after termination", ok, "a request arriving after shutdown began would still start an application", cs[0] if cs else he)
    ss = repo.func(M2, "H2Protocol.stream_send")
    arm = arm_for(ss, "event", "StreamClosed")
    ctx.need(arm is not None, "stream_send: no StreamClosed arm")
    cc = find_in(arm.body, "self.connection.close_connection")
    ok = len(cc) == 1
    if ok:
        def canon(t):
            return {"idle": "idle", "self.idle": "idle", "self.context.terminated.is_set()": "term", "len(self.streams) == 0": "nostreams", "not self.streams": "nostreams",
                    "all((stream.idle for stream in self.streams.values()))": "allidle"}.get(t)
        gs = [(t, p) for t, p in guards(cc[0], stop=arm) if norm(t) != norm(arm.test)]
        cex = guards_table(gs, lambda e: (e.get("idle", False) or e.get("nostreams", False) or e.get("allidle", False)) and e.get("term", False), {}, canon)
        ok = cex is None and bool(gs)
    ctx.check("C15.R4", f"{M2}:H2Protocol.stream_send", "last stream closed and terminated -> close_connection()", ok, "an idle HTTP/2 connection must be told to go away once shutdown began", cc[0] if cc else arm)
    g3 = CFG(ss)
    ccn = g3.where(has_call("self.connection.close_connection"))
    ok = bool(ccn) and g3.must_pass(ccn[0], [g3.exit], has_call("self._flush"), skip_labels=("exc", "catch", "uncaught")) is None
    ctx.check("C15.R4", f"{M2}:H2Protocol.stream_send", "GOAWAY flushed", ok, "close_connection() without a flush never reaches the client", arm)

    # ---- R5 (re-evaluated here so that C15 does not depend on another check having run)
    mr = repo.func("protocol.h11", "H11Protocol._maybe_recycle")
    snc = find_calls(mr, "self.connection.start_next_cycle")
    ok = len(snc) == 1 and ("self.context.terminated.is_set()", False) in guard_atoms(snc[0])
    ctx.check("C15.R5", "protocol.h11:H11Protocol._maybe_recycle", "no start_next_cycle() once terminated", ok, "keep-alive connections would keep serving requests after shutdown began", snc[0] if snc else mr)

    # ---- R6
    for mod, fn, wq in (("asyncio.run", ws, w), ("trio.run", wt, w2)):
        hs = [h for t in walk_local(fn) if isinstance(t, ast.Try) for h in t.handlers if "BaseExceptionGroup" in norm(h.type)]
        ok = len(hs) == 1 and "error.split((ShutdownError, KeyboardInterrupt))" in norm(hs[0]) and any(isinstance(s, ast.Raise) for s in ast.walk(hs[0]))
        ctx.check("C15.R6", wq, "exception group: Shutdown/KeyboardInterrupt split off, other errors re-raised", ok, "shutdown signals must end the wait quietly; real errors must propagate", hs[0] if hs else fn)
        trig = []
        for c in calls(fn):
            if call_name(c) == "raise_shutdown" and c.args:
                trig.append(norm(c.args[0]))
            elif c.args and norm(c.args[0]) == "raise_shutdown" and len(c.args) > 1:
                trig.append(norm(c.args[1]))
        ctx.check("C15.R6", wq, "both trigger sources raced", sorted(trig) == ["context.terminate.wait", "shutdown_trigger"], f"raced triggers: {trig}", fn)
    rsd = repo.func("utils", "raise_shutdown")
    body = [norm(s) for s in rsd.body]
    ctx.check("C15.R6", "utils:raise_shutdown", "await trigger(); raise ShutdownError()", body == ["await shutdown_event()", "raise ShutdownError()"], f"raise_shutdown body: {body}", rsd)

    from ..core import Alias
    from . import c07

    c07.run(Alias(ctx, "C15.R8", "HTTP/2: the idleness that decides the GOAWAY is the connection's idle predicate computed after the finished stream was removed (C07.R1 on stream_send)", only={"C07.R1"}, where=["H2Protocol.stream_send"]))
    from . import c16

    from . import c08

    c08.run(Alias(ctx, "C15.R9", "HTTP/2: a response that completes within the grace period is on the wire before its stream is closed and the connection told to go away: EndBody/EndData wait for the stream buffer to drain (C08.R6)", only={"C08.R6"}))
    c16.run(Alias(ctx, "C15.R10", "the lifespan shutdown wait is bounded by shutdown_timeout in both workers (C16.R2 on Lifespan.wait_for_shutdown)", only={"C16.R2"}, where=["Lifespan.wait_for_shutdown"]))
    c16.run(Alias(ctx, "C15.R7", "both workers realise the same idle-timer skeleton: on `terminated` the timer closes the connection at once (C16.R2 on _idle_timeout/_initiate_server_close; C16.R1 on WorkerContext)", only={"C16.R1", "C16.R2"}, where=["_idle_timeout", "_initiate_server_close", "WorkerContext"]))
    ctx.assume("not decided: wall-clock bounds, what clients observe, cancellation semantics of asyncio.wait_for / trio deadlines")
    ctx.assume("runtime fact used by C15.R1: asyncio.Server.wait_closed() waits for active connections on CPython >= 3.12 (confirmed by triage/asyncio_shutdown_unbounded.py)")
