"""C16 — protocol behaviour does not depend on the worker class (sibling cross-check).

Each asyncio/trio method pair is matched against ONE abstract effect skeleton.  A step of
the skeleton has a concrete pattern per runtime (call shape, argument texts, context:
under which `with`, inside a handler for which exception classes, under which guards).
Both implementations must realise every step, in skeleton order, and every *effectful*
call of either implementation must be claimed by a step: so an effect added, removed,
reordered, re-guarded or re-parameterised on one side only is a violation.  Steps that
exist on one side only are the accepted divergences (each with its reason).
"""
from __future__ import annotations

import ast
from typing import Any, Dict, List, Optional, Sequence, Set, Tuple

from ..astq import ancestors, call_name, callee_shape, calls, dotted, guard_atoms, norm, walk_local
from ..core import Alias, Ctx
from .c08 import handler_classes

RT = ("asyncio", "trio")

# call-shape prefixes that count as effects (must be claimed by a skeleton step)
EFFECT_PREFIXES = (
    "self.protocol.", "self.writer.", "self.reader.", "self.stream.", "self.idle_task.", "config.log.", "self.config.log.",
    "self._close", "self._read_data", "self._initiate_server_close", "self._handle.", "self._event.", "self.terminate.", "self.terminated.",
    "self.context.terminated.", "asyncio.wait_for", "asyncio.shield", "trio.fail_after", "trio.move_on_after", "trio.CancelScope",
    "task_group._task_group.", "task_group._nursery.", "self._nursery.", "self._task_group.", "self.spawn", "asyncio.Queue", "trio.open_memory_channel",
    "self.app_queue.", "self.app_send_channel.", "self.app_receive_channel.", "self.startup.", "self.shutdown.", "self._started.", "self.app",
    "ProtocolWrapper", "ConnectionState", "TaskGroup", "parse_socket_addr",
)
EFFECT_NAMES = {"send", "app", "func"}
PURE_SUFFIXES = (".get_extra_info", ".selected_alpn_protocol", ".is_set", ".at_eof", ".getpeername", ".getsockname", ".copy")


def P(shape: str, args: Optional[List[Optional[str]]] = None, **ctx: Any) -> Dict[str, Any]:
    return {"shape": shape, "args": args, **ctx}


# (abstract step, asyncio pattern | None, trio pattern | None, reason when one side is None)
Step = Tuple[str, Optional[Dict[str, Any]], Optional[Dict[str, Any]], str]

TRANSPORT_WRITE_ERR = ({"ConnectionError", "RuntimeError"}, {"BrokenResourceError", "ClosedResourceError"})
READ_ERR = ({"ConnectionError", "OSError", "TimeoutError", "SSLError"}, {"ClosedResourceError", "BrokenResourceError", "TooSlowError"})

PAIRS: List[Tuple[str, str, str, List[Step]]] = [
    ("tcp_server", "TCPServer.run", "connection handler", [
        ("TLS handshake timeout", None, P("trio.fail_after", ["self.config.ssl_handshake_timeout"]), "D9: asyncio performs the TLS handshake inside start_server (ssl_handshake_timeout is passed there)"),
        ("TLS handshake", None, P("self.stream.do_handshake", [], awaited=True, under_with="trio.fail_after(self.config.ssl_handshake_timeout)"), "D9"),
        ("client address", P("parse_socket_addr", ["socket.family", "socket.getpeername()"]), P("parse_socket_addr", ["socket.family", "socket.getpeername()"]), ""),
        ("server address", P("parse_socket_addr", ["socket.family", "socket.getsockname()"]), P("parse_socket_addr", ["socket.family", "socket.getsockname()"]), ""),
        ("task group", P("TaskGroup", ["self.loop"]), P("TaskGroup", []), ""),
        ("per-connection state copy", P("ConnectionState", ["self.state.copy()"]), P("ConnectionState", ["self.state.copy()"]), ""),
        ("protocol wrapper", P("ProtocolWrapper", ["self.app", "self.config", "self.context", "task_group", "ConnectionState(self.state.copy())", "ssl", "client", "server", "self.protocol_send", "alpn_protocol"]),
         P("ProtocolWrapper", ["self.app", "self.config", "self.context", "task_group", "ConnectionState(self.state.copy())", "ssl", "client", "server", "self.protocol_send", "alpn_protocol"]), ""),
        ("initiate", P("self.protocol.initiate", [], awaited=True), P("self.protocol.initiate", [], awaited=True), ""),
        ("arm idle timer", P("self.idle_task.restart", ["task_group", "self._idle_timeout"], awaited=True), P("self.idle_task.restart", ["self._task_group", "self._idle_timeout"], awaited=True), ""),
        ("read loop", P("self._read_data", [], awaited=True), P("self._read_data", [], awaited=True), ""),
        ("close in finally", P("self._close", [], awaited=True, in_finally=True), P("self._close", [], awaited=True, in_finally=True), ""),
    ]),
    ("tcp_server", "TCPServer.protocol_send", "transport write path", [
        ("shield the write", None, P("trio.CancelScope", [], under_with="self.send_lock"), "trio shields send_all from cancellation so a partial TLS record is never written; asyncio's transport buffers the whole write"),
        ("write", P("self.writer.write", ["event.data"], under_with="self.send_lock", guard=("isinstance(event, RawData)", True)), P("self.stream.send_all", ["event.data"], under_with="self.send_lock", guard=("isinstance(event, RawData)", True), awaited=True), ""),
        ("drain", P("self.writer.drain", [], under_with="self.send_lock", awaited=True), None, "trio send_all both writes and waits"),
        ("write failed -> Closed", P("self.protocol.handle", ["Closed()"], in_handler=TRANSPORT_WRITE_ERR[0], awaited=True), P("self.protocol.handle", ["Closed()"], in_handler=TRANSPORT_WRITE_ERR[1], awaited=True), ""),
        ("Closed -> close transport", P("self._close", [], guard=("isinstance(event, Closed)", True), awaited=True), P("self._close", [], guard=("isinstance(event, Closed)", True), awaited=True), ""),
        ("Closed -> tell protocol", None, P("self.protocol.handle", ["Closed()"], guard=("isinstance(event, Closed)", True), awaited=True), "D1: asyncio learns of the close from its read loop (EOF after close); trio's receive_some is not woken by aclose"),
        ("idle -> restart timer", P("self.idle_task.restart", ["self._task_group", "self._idle_timeout"], guard=("event.idle", True), awaited=True), P("self.idle_task.restart", ["self._task_group", "self._idle_timeout"], guard=("event.idle", True), awaited=True), ""),
        ("busy -> stop timer", P("self.idle_task.stop", [], guard=("event.idle", False), awaited=True), P("self.idle_task.stop", [], guard=("event.idle", False), awaited=True), ""),
    ]),
    ("tcp_server", "TCPServer._read_data", "read loop", [
        ("bounded read", P("asyncio.wait_for", ["self.reader.read(MAX_RECV)", "self.config.read_timeout"], awaited=True), P("trio.fail_after", ["self.config.read_timeout or inf"]), ""),
        ("read", P("self.reader.read", ["MAX_RECV"]), P("self.stream.receive_some", ["MAX_RECV"], awaited=True, under_with="trio.fail_after(self.config.read_timeout or inf)"), ""),
        ("data -> protocol", P("self.protocol.handle", ["RawData($)"], awaited=True, not_in_handler=True, apart_from="asyncio.wait_for"), P("self.protocol.handle", ["RawData($)"], awaited=True, not_in_handler=True, unguarded=True, outside_with="trio.fail_after"), ""),
        ("end -> Closed", P("self.protocol.handle", ["Closed()"], awaited=True, after_loop=True), P("self.protocol.handle", ["Closed()"], awaited=True, after_loop=True), ""),
    ]),
    ("tcp_server", "TCPServer._close", "transport close", [
        ("half-close", P("self.writer.write_eof", [], in_try_with={"NotImplementedError", "OSError", "RuntimeError"}), P("self.stream.send_eof", [], awaited=True, in_try_with={"BrokenResourceError", "AttributeError", "BusyResourceError", "ClosedResourceError"}), ""),
        ("close", P("self.writer.close", [], apart_from="self.writer.write_eof"), P("self.stream.aclose", [], awaited=True, apart_from="self.stream.send_eof"), ""),
        ("wait closed", P("self.writer.wait_closed", [], awaited=True), None, "trio aclose() is the wait"),
        ("stop idle timer", P("self.idle_task.stop", [], awaited=True, in_finally=True), None, "D2: trio's idle task lives in the connection nursery and ends with it"),
    ]),
    ("tcp_server", "TCPServer._initiate_server_close", "server-side close", [
        ("tell protocol", P("self.protocol.handle", ["Closed()"], awaited=True), P("self.protocol.handle", ["Closed()"], awaited=True), ""),
        ("close transport", P("self.writer.close", []), P("self.stream.aclose", [], awaited=True), ""),
    ]),
    ("tcp_server", "TCPServer._idle_timeout", "idle timer", [
        ("bounded wait for shutdown", P("asyncio.wait_for", ["self.context.terminated.wait()", "self.config.keep_alive_timeout"], awaited=True), P("trio.move_on_after", ["self.config.keep_alive_timeout"]), ""),
        ("wait on terminated", P("self.context.terminated.wait", []), P("self.context.terminated.wait", [], awaited=True, under_with="trio.move_on_after(self.config.keep_alive_timeout)"), ""),
        ("shield", P("asyncio.shield", ["self._initiate_server_close()"], awaited=True, not_in_handler=True, unguarded=True), P("trio.CancelScope", ["shield=True"], not_in_handler=True, unguarded=True), ""),
        ("server close", P("self._initiate_server_close", []), P("self._initiate_server_close", [], awaited=True, under_with="trio.CancelScope(shield=True)"), ""),
    ]),
    ("task_group", "_handle", "application wrapper", [
        ("run app", P("app", ["scope", "receive", "send", "sync_spawn", "call_soon"], awaited=True), P("app", ["scope", "receive", "send", "sync_spawn", "call_soon"], awaited=True), ""),
        ("group: log", None, P("config.log.exception", ["'Error in ASGI Framework'"], awaited=True, in_handler={"BaseExceptionGroup"}), "D3: trio wraps task errors in exception groups"),
        ("group: send(None)", None, P("send", ["None"], awaited=True, in_handler={"BaseExceptionGroup"}), "D3: the finally-block send(None) that follows is a no-op behind the streams' closed guards"),
        ("log error", P("config.log.exception", ["'Error in ASGI Framework'"], awaited=True, in_handler={"Exception"}), P("config.log.exception", ["'Error in ASGI Framework'"], awaited=True, in_handler={"Exception"}), ""),
        ("always send(None)", P("send", ["None"], awaited=True, in_finally=True), P("send", ["None"], awaited=True, in_finally=True), ""),
    ]),
    ("task_group", "TaskGroup.spawn_app", "application queue", [
        ("bounded queue", P("asyncio.Queue", ["config.max_app_queue_size"]), P("trio.open_memory_channel[]", ["config.max_app_queue_size"]), ""),
        ("spawn wrapper", P("self.spawn", ["_handle", "app", "config", "scope", "app_queue.get", "send", None, "_call_soon"]), P("self._nursery.start_soon", ["_handle", "app", "config", "scope", "app_receive_channel.receive", "send", "trio.to_thread.run_sync", "trio.from_thread.run"]), ""),
    ]),
    ("worker_context", "WorkerContext.mark_request", "request accounting", []),
    ("worker_context", "WorkerContext.__init__", "worker context", []),
    ("worker_context", "EventWrapper.wait", "event", []),
    ("worker_context", "EventWrapper.set", "event", []),
    ("worker_context", "EventWrapper.is_set", "event", []),
    ("lifespan", "Lifespan.asgi_send", "lifespan send", []),
    ("lifespan", "Lifespan.wait_for_startup", "startup wait", [
        ("task started", P("self._started.wait", [], awaited=True), None, "D7: asyncio has no nursery.start(); _started mimics task_status.started()"),
        ("send startup", P("self.app_queue.put", ["{'type': 'lifespan.startup'}"], awaited=True, guard=("self.supported", True)), P("self.app_send_channel.send", ["{'type': 'lifespan.startup'}"], awaited=True, guard=("self.supported", True), in_try_with={"BrokenResourceError", "ClosedResourceError"}), ""),
        ("bounded wait", P("asyncio.wait_for", ["self.startup.wait()", "self.config.startup_timeout"], awaited=True), P("trio.fail_after", ["self.config.startup_timeout"]), ""),
        ("wait", P("self.startup.wait", []), P("self.startup.wait", [], awaited=True, under_with="trio.fail_after(self.config.startup_timeout)"), ""),
        ("timeout -> LifespanTimeoutError('startup')", P("LifespanTimeoutError", ["'startup'"], in_handler={"TimeoutError"}), P("LifespanTimeoutError", ["'startup'"], in_handler={"TooSlowError"}), ""),
    ]),
    ("lifespan", "Lifespan.wait_for_shutdown", "shutdown wait", [
        ("task started", P("self._started.wait", [], awaited=True), None, "D7"),
        ("send shutdown", P("self.app_queue.put", ["{'type': 'lifespan.shutdown'}"], awaited=True, guard=("self.supported", True)), P("self.app_send_channel.send", ["{'type': 'lifespan.shutdown'}"], awaited=True, guard=("self.supported", True), in_try_with={"BrokenResourceError", "ClosedResourceError"}), ""),
        ("bounded wait", P("asyncio.wait_for", ["self.shutdown.wait()", "self.config.shutdown_timeout"], awaited=True), P("trio.fail_after", ["self.config.shutdown_timeout"]), ""),
        ("wait", P("self.shutdown.wait", []), P("self.shutdown.wait", [], awaited=True, under_with="trio.fail_after(self.config.shutdown_timeout)"), ""),
        ("timeout -> LifespanTimeoutError('shutdown')", P("LifespanTimeoutError", ["'shutdown'"], in_handler={"TimeoutError"}), P("LifespanTimeoutError", ["'shutdown'"], in_handler={"TooSlowError"}), ""),
    ]),
    ("lifespan", "Lifespan.handle_lifespan", "lifespan task", [
        ("started", P("self._started.set", []), P("task_status.started", []), ""),
        ("run app", P("self.app", ["scope", "self.asgi_receive", "self.asgi_send", None, "_call_soon"], awaited=True), P("self.app", ["scope", "self.asgi_receive", "self.asgi_send", "trio.to_thread.run_sync", "trio.from_thread.run"], awaited=True), ""),
        ("warn unsupported", P("self.config.log.warning", None, awaited=True, guard=("self.startup.is_set()", False)), P("self.config.log.warning", None, awaited=True, guard=("self.startup.is_set()", False)), ""),
        ("log shutdown error", P("self.config.log.exception", None, awaited=True, guard=("self.shutdown.is_set()", False)), P("self.config.log.exception", None, awaited=True, guard=("self.shutdown.is_set()", False)), ""),
        ("log late error", P("self.config.log.exception", None, awaited=True, guard=("self.shutdown.is_set()", True)), P("self.config.log.exception", None, awaited=True, guard=("self.shutdown.is_set()", True)), ""),
        ("release startup", P("self.startup.set", [], in_finally=True, unordered=True), P("self.startup.set", [], in_finally=True, unordered=True), ""),
        ("release shutdown", P("self.shutdown.set", [], in_finally=True, unordered=True), P("self.shutdown.set", [], in_finally=True, unordered=True), ""),
        ("close send channel", None, P("self.app_send_channel.aclose", [], awaited=True, in_finally=True), "D8: trio memory channels must be closed"),
        ("close receive channel", None, P("self.app_receive_channel.aclose", [], awaited=True, in_finally=True), "D8"),
    ]),
]

SINGLE_TASK: List[Tuple[str, List[Step]]] = [
    ("restart", [
        ("cancel previous", P("self._handle.cancel", [], under_with="self._lock", guard=("self._handle is not None", True)), P("self._handle.cancel", [], under_with="self._lock", guard=("self._handle is not None", True)), ""),
        ("start new", P("task_group._task_group.create_task", ["action()"], under_with="self._lock"), P("task_group._nursery.start", ["_cancel_wrapper(action)"], under_with="self._lock", awaited=True), ""),
    ]),
    ("stop", [
        ("cancel", P("self._handle.cancel", [], under_with="self._lock", guard=("self._handle is not None", True)), P("self._handle.cancel", [], under_with="self._lock", guard=("self._handle is not None", True)), ""),
    ]),
]

# names that differ only by runtime, for twin (normalised-equality) comparison
TWIN_RENAMES = {"asyncio": "RT", "trio": "RT"}


def _norm_twin(fn: ast.AST) -> str:
    import copy

    f = copy.deepcopy(fn)
    f.returns = None
    for a in f.args.args + f.args.kwonlyargs + f.args.posonlyargs:
        a.annotation = None
    f.decorator_list = [d for d in f.decorator_list]
    body = [s for s in f.body if not (isinstance(s, ast.Expr) and isinstance(s.value, ast.Constant) and isinstance(s.value.value, str))]
    f.body = body or [ast.Pass()]
    # shape normal form ("else-ified"): `if c: A(leaves); REST` == `if c: A else: REST`; trailing
    # bare returns dropped; `if c: <nothing> else: B` == `if not c: B`; a > b == b < a
    from ..canon import _leaves_block, _negate

    def elsify(block):
        out = []
        for i_, st in enumerate(block):
            if isinstance(st, ast.If):
                st.body = elsify(st.body)
                st.orelse = elsify(st.orelse)
                if not st.orelse and _leaves_block(st.body) and i_ + 1 < len(block):
                    st.orelse = elsify(block[i_ + 1 :])
                    out.append(st)
                    break
            out.append(st)
        return out

    def strip_tail(block):
        while block and isinstance(block[-1], ast.Return) and (block[-1].value is None or (isinstance(block[-1].value, ast.Constant) and block[-1].value.value is None)):
            block = block[:-1]
        if block and isinstance(block[-1], ast.If):
            last = block[-1]
            last.body = strip_tail(last.body)
            last.orelse = strip_tail(last.orelse)
            if not last.body and last.orelse:
                last.test, last.body, last.orelse = _negate(last.test), last.orelse, []
            if not last.body and not last.orelse:
                block = block[:-1] + [ast.Expr(value=last.test)]
            elif not last.body:
                last.body = [ast.Pass()]
        return block

    f.body = strip_tail(elsify(f.body)) or [ast.Pass()]
    for n in ast.walk(f):
        if isinstance(n, ast.Compare) and len(n.ops) == 1 and isinstance(n.ops[0], (ast.Gt, ast.GtE)):
            n.left, n.comparators = n.comparators[0], [n.left]
            n.ops = [ast.Lt() if isinstance(n.ops[0], ast.Gt) else ast.LtE()]
    ast.fix_missing_locations(f)
    for n in ast.walk(f):
        if isinstance(n, ast.Name) and n.id in TWIN_RENAMES:
            n.id = TWIN_RENAMES[n.id]
        if isinstance(n, ast.AnnAssign):
            n.annotation = ast.Name(id="T", ctx=ast.Load())
    return ast.unparse(f)


def _is_effect(c: ast.Call) -> bool:
    s = callee_shape(c.func)
    if s is None:
        return False
    if s in EFFECT_NAMES:
        return True
    if s.endswith(PURE_SUFFIXES):
        return False
    return any(s == p or s.startswith(p) for p in EFFECT_PREFIXES)


def _ctx_ok(c: ast.Call, fn: ast.AST, pat: Dict[str, Any]) -> Tuple[bool, str]:
    if pat.get("awaited") and not isinstance(getattr(c, "_parent", None), ast.Await):
        return False, "not awaited"
    uw = pat.get("under_with")
    if uw is not None:
        found = any(isinstance(a, (ast.With, ast.AsyncWith)) and any(norm(i.context_expr) == uw for i in a.items) for a in ancestors(c))
        if not found:
            return False, f"not under `with {uw}`"
    g = pat.get("guard")
    if g is not None and g not in guard_atoms(c):
        return False, f"not guarded by {g}"
    if pat.get("unguarded"):
        extra = {a for a in guard_atoms(c) if a[0] != "True"}
        if extra:
            return False, f"guarded by {sorted(extra)}"
    ih = pat.get("in_handler")
    if ih is not None:
        hs = [a for a in ancestors(c) if isinstance(a, ast.ExceptHandler)]
        if not hs:
            return False, "not inside an exception handler"
        got = handler_classes(hs[0])
        if not (set(ih) <= got):
            return False, f"handler catches {sorted(got)}, needs {sorted(ih)}"
    if pat.get("not_in_handler") and any(isinstance(a, ast.ExceptHandler) for a in ancestors(c)):
        return False, "inside an exception handler"
    ow = pat.get("outside_with")
    if ow is not None:
        for a in ancestors(c):
            if isinstance(a, (ast.With, ast.AsyncWith)) and any(norm(i.context_expr).startswith(ow) for i in a.items):
                return False, f"inside `with {ow}...` (its timeout / scope now covers this step)"
    af = pat.get("apart_from")
    if af is not None:
        for a in ancestors(c):
            if isinstance(a, ast.Try) and any(c is x for st in a.body for x in ast.walk(st)):
                if any(isinstance(x, ast.Call) and callee_shape(x.func) == af for st in a.body for x in ast.walk(st)):
                    return False, f"in the same try block as {af} (skipped when that call raises)"
    itw = pat.get("in_try_with")
    if itw is not None:
        ok = False
        for a in ancestors(c):
            if isinstance(a, ast.Try) and any(c is x for s in a.body for x in ast.walk(s)):
                got = set().union(*[handler_classes(h) for h in a.handlers]) if a.handlers else set()
                ok = set(itw) <= got
                if not ok:
                    return False, f"surrounding try catches {sorted(got)}, needs {sorted(itw)}"
                break
        if not ok:
            return False, "not inside a try"
    if pat.get("in_finally"):
        ok = any(isinstance(a, ast.Try) and any(c is x for s in a.finalbody for x in ast.walk(s)) for a in ancestors(c))
        if not ok:
            return False, "not in a finally block"
    if pat.get("after_loop"):
        loops = [n for n in walk_local(fn) if isinstance(n, (ast.While, ast.For, ast.AsyncFor))]
        if not loops or any(any(c is x for x in ast.walk(l)) for l in loops) or c.lineno < max(l.end_lineno for l in loops):
            return False, "not after the loop"
        if {a for a in guard_atoms(c) if a[0] != "True"}:
            return False, f"conditional: {sorted(guard_atoms(c))}"
    return True, ""


def _args_ok(c: ast.Call, want: Optional[List[Optional[str]]]) -> Tuple[bool, str]:
    if want is None:
        return True, ""
    got = [norm(a) for a in c.args] + [f"{k.arg}={norm(k.value)}" for k in c.keywords]
    if len(got) != len(want):
        return False, f"arguments {got}"
    for g, w in zip(got, want):
        if w is None:
            continue
        if "$" in w:
            import re as _re

            if not _re.fullmatch(_re.escape(w).replace("\\$", r"[A-Za-z_][A-Za-z_0-9]*"), g):
                return False, f"arguments {got}, expected {want}"
        elif g != w:
            return False, f"arguments {got}, expected {want}"
    return True, ""


def match_pair(ctx: Ctx, rule: str, sub: str, qual: str, steps: List[Step], mods: Optional[Tuple[str, str]] = None, quals: Optional[Tuple[str, str]] = None) -> None:
    repo = ctx.repo
    for idx, rt in enumerate(RT):
        mod = mods[idx] if mods else f"{rt}.{sub}"
        q = quals[idx] if quals else qual
        fn = repo.func(mod, q)
        w = f"{mod}:{q}"
        all_calls = calls(fn)
        claimed: Set[int] = set()
        last_pos = (-1, -1)
        prev_hits: List[ast.AST] = []
        for name, pa, pt, reason in steps:
            pat = pa if idx == 0 else pt
            if pat is None:
                continue
            cands = [c for c in all_calls if callee_shape(c.func) == pat["shape"] and id(c) not in claimed]
            hit = None
            why = "no such call"
            for c in cands:
                ok1, w1 = _args_ok(c, pat.get("args"))
                if not ok1:
                    why = w1
                    continue
                ok2, w2 = _ctx_ok(c, fn, pat)
                if not ok2:
                    why = w2
                    continue
                hit = c
                break
            if hit is None:
                ctx.check(rule, w, f"step `{name}`", False, f"{rt} {q}: step `{name}` ({pat['shape']}) not realised: {why}; the other worker performs it, so the two workers now behave differently", cands[0] if cands else fn)
                continue
            claimed.add(id(hit))
            pos = (hit.lineno, hit.col_offset)
            # order matters only between effects that can happen in the same execution: arms of
            # one if/elif chain are mutually exclusive and may be written in any order
            later = [h_ for h_ in prev_hits if (h_.lineno, h_.col_offset) > pos and not _exclusive(h_, hit)]
            in_order = not later or pat.get("unordered")
            prev_hits.append(hit)
            # nested calls (wait_for(read(..))) share a statement: order by statement, then outer-before-inner
            ctx.check(rule, w, f"step `{name}`", True, "", hit)
            if not in_order and not _same_stmt(hit, last_node if "last_node" in dir() else None):
                ctx.check(rule, w, f"order of `{name}`", False, f"{rt} {q}: `{name}` happens before the preceding skeleton step: the sequence of effects differs from the other worker", hit)
            last_pos = max(last_pos, pos)
            last_node = hit
        for c in all_calls:
            if _is_effect(c) and id(c) not in claimed:
                # inner calls of a claimed call expression are part of it
                if any(id(a) in claimed for a in ancestors(c) if isinstance(a, ast.Call)):
                    continue
                # the same effect written once per mutually exclusive arm / handler (a duplicated tail)
                if any(id(o) in claimed and norm(o) == norm(c) and _exclusive(o, c) for o in all_calls):
                    continue
                ctx.check(rule, w, f"unclaimed effect {callee_shape(c.func)}", False, f"{rt} {q}: effect `{norm(c)[:70]}` has no counterpart in the common skeleton (added on this worker only?)", c)


def _exclusive(a: ast.AST, b: ast.AST) -> bool:
    """a and b sit in different arms (body / orelse) of a common `if`."""
    anc_a = [a] + list(ancestors(a))
    anc_b = [b] + list(ancestors(b))
    for x in anc_a:
        if isinstance(x, ast.Try) and any(x is y for y in anc_b):
            ha = [h for h in x.handlers if any(h is y for y in anc_a)]
            hb = [h for h in x.handlers if any(h is y for y in anc_b)]
            if ha and hb and ha[0] is not hb[0]:
                return True
        if isinstance(x, ast.If) and any(x is y for y in anc_b):
            def arm(path):
                for i, n in enumerate(path):
                    if n is x:
                        child = path[i - 1] if i > 0 else None
                        if any(child is s for s in x.body):
                            return "body"
                        if any(child is s for s in x.orelse):
                            return "orelse"
                return None
            ra, rb = arm(anc_a), arm(anc_b)
            if ra and rb and ra != rb:
                return True
    return False


def _same_stmt(a: ast.AST, b: Optional[ast.AST]) -> bool:
    if b is None:
        return False
    from ..astq import enclosing_stmt

    return enclosing_stmt(a) is enclosing_stmt(b)


def run(ctx: Ctx) -> None:
    if getattr(ctx, "_depth", 0) >= 2:
        return  # alias of an alias: not followed (breaks import cycles between rule modules)
    _run(ctx)
    if isinstance(ctx, Alias):
        return
    from . import c05

    from . import c15

    c15.run(Alias(ctx, "C16.R5", "graceful shutdown has the same meaning on both workers: trio bounds the connection handlers with now + graceful_timeout (an absolute deadline), asyncio with wait_for(graceful_timeout) (C15.R2/R1)", only={"C15.R2"}))
    from . import c14

    c14.run(Alias(ctx, "C16.R6", "both workers take the per-connection copy of the lifespan state after lifespan startup has completed (C14.R1/R5)", only={"C14.R1", "C14.R5"}))
    c05.run(Alias(ctx, "C16.R4", "an application failure is contained the same way by both workers: logged, answered through send(None), never re-raised into the connection's task group - including failures wrapped in an exception group on trio (C05.R1)", only={"C05.R1"}))


def _run(ctx: Ctx) -> None:
    repo = ctx.repo
    ctx.rule("C16.R1", "twin equality: functions that must be the same logic in both workers are equal after normalising runtime names (WorkerContext.__init__/mark_request, EventWrapper.wait/set/is_set, Lifespan.asgi_send)", floor=6)
    ctx.rule("C16.R2", "effect-skeleton agreement: both implementations of each paired method realise every step of one abstract skeleton, in order, with the same arguments, guards, handler classes and lock/timeout context, and contain no unclaimed effect", floor=60)
    ctx.rule("C16.R3", "single-task helpers agree: restart cancels the previous timer under the lock and starts the action; stop cancels and forgets", floor=6)

    for sub, qual, desc, steps in PAIRS:
        if not steps:
            a = repo.func(f"asyncio.{sub}", qual)
            t = repo.func(f"trio.{sub}", qual)
            na, nt = _norm_twin(a), _norm_twin(t)
            ctx.check("C16.R1", f"{sub}:{qual}", "asyncio == trio (normalised)", na == nt, f"the two workers' {qual} differ:\n--- asyncio\n{na}\n--- trio\n{nt}", a)
        else:
            match_pair(ctx, "C16.R2", sub, qual, steps)
    for meth, steps in SINGLE_TASK:
        match_pair(ctx, "C16.R3", "worker_context", meth, steps, quals=(f"AsyncioSingleTask.{meth}", f"TrioSingleTask.{meth}"))
    for meth in ("restart", "stop"):
        for rt, cls in (("asyncio", "AsyncioSingleTask"), ("trio", "TrioSingleTask")):
            fn = repo.func(f"{rt}.worker_context", f"{cls}.{meth}")
            asg = [n for n in walk_local(fn) if isinstance(n, ast.Assign) and dotted(n.targets[0]) == "self._handle"]
            ok = len(asg) == 1 and (norm(asg[0].value) == "None" if meth == "stop" else "action" in norm(asg[0].value))
            ctx.check("C16.R3", f"{rt}.worker_context:{cls}.{meth}", "handle updated once", ok, f"self._handle assignments: {[norm(a) for a in asg]}", fn)

    # the tables of exception classes the two read loops treat as 'peer gone'
    for idx, rt in enumerate(RT):
        fn = repo.func(f"{rt}.tcp_server", "TCPServer._read_data")
        hs = [h for t in walk_local(fn) if isinstance(t, ast.Try) for h in t.handlers]
        got = set().union(*[handler_classes(h) for h in hs]) if hs else set()
        ok = READ_ERR[idx] <= got and all(isinstance(h.body[-1], ast.Break) for h in hs)
        ctx.check("C16.R2", f"{rt}.tcp_server:TCPServer._read_data", "read failure classes -> leave the loop", ok, f"{rt} read loop handles {sorted(got)}; expected at least {sorted(READ_ERR[idx])}, each ending the loop (then Closed is reported)", fn)
    # trio's empty-read rule (the counterpart of asyncio's at_eof loop condition) must come after delivery
    fn = repo.func("trio.tcp_server", "TCPServer._read_data")
    brk = [n for n in walk_local(fn) if isinstance(n, ast.Break) and ("data == b''", True) in guard_atoms(n)]
    hd = [c for c in calls(fn) if callee_shape(c.func) == "self.protocol.handle" and "RawData" in norm(c)]
    ok = len(brk) == 1 and len(hd) == 1 and hd[0].lineno < brk[0].lineno
    ctx.check("C16.R2", "trio.tcp_server:TCPServer._read_data", "empty read is delivered to the protocol, then the loop ends", ok, "trio must hand the empty read (EOF) to the protocol like asyncio does (h11 turns a truncated request into 400 only when it sees the EOF); leaving the loop first makes trio close silently", brk[0] if brk else fn)

    ctx.assume("not decided: equivalence of the two runtimes' scheduling, cancellation and buffering semantics; timing. The skeletons are the oracle: a legitimate refactor that changes BOTH workers consistently requires updating the skeleton (reported as a violation until then)")
    ctx.assume("accepted divergences D1-D9 are the skeleton steps with a single-sided pattern; each carries its reason in rules/c16.py")
