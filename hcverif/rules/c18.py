"""C18 — configured limits and worker recycling are wired to their enforcement points."""
from __future__ import annotations

import ast
import re
from typing import Dict, List, Set, Tuple

from ..astq import ancestors, arg, call_name, calls, dotted, find_calls, guard_atoms, guards, kwarg, norm, provenance, walk_local
from ..cfg import CFG
from ..core import Ctx
from ..pred import Unknown, eval_expr
from .common import arm_for, explain, find_in, has_call

LIMIT_KEYS = [
    "h11_max_incomplete_size",
    "h2_max_concurrent_streams",
    "h2_max_header_list_size",
    "h2_max_inbound_frame_size",
    "keep_alive_max_requests",
    "websocket_max_message_size",
    "wsgi_max_body_size",
    "max_app_queue_size",
    "max_requests",
    "max_requests_jitter",
]


def _cfg_reads(node: ast.AST) -> Set[str]:
    out = set()
    for n in ast.walk(node):
        if isinstance(n, ast.Attribute):
            d = dotted(n)
            if d:
                m = re.match(r"^(?:self\.)?config\.(\w+)$", d)
                if m:
                    out.add(m.group(1))
    return out


def run(ctx: Ctx) -> None:
    if getattr(ctx, "_depth", 0) >= 2:
        return  # alias of an alias: not followed (breaks import cycles between rule modules)
    repo = ctx.repo
    ctx.rule("C18.R1", "each limit setting is read at its own enforcement point and at no other limit's sink", floor=12)
    ctx.rule("C18.R2", "comparators: HTTP/1 closes at requests >= max; HTTP/2 sends GOAWAY at requests > max; the worker terminates at requests > max_requests after counting exactly one", floor=5)
    ctx.rule("C18.R3", "every created stream is counted once (keep_alive_requests += 1) and marked once (await context.mark_request()) in each protocol", floor=4)
    ctx.rule("C18.R4", "max_requests = config.max_requests + randint(0, config.max_requests_jitter), passed to WorkerContext, and terminate is raced with the shutdown trigger (both workers)", floor=6)
    ctx.rule("C18.R5", "the limit setting exists on Config with a positive / None default of the right kind", floor=10)

    # ---- R1 sinks
    h11i = repo.func("protocol.h11", "H11Protocol.__init__")
    conn = [c for c in calls(h11i) if call_name(c) == "h11.Connection"]
    ok = len(conn) == 1 and _cfg_reads(kwarg(conn[0], "max_incomplete_event_size") or ast.Constant(None)) == {"h11_max_incomplete_size"} and norm(arg(conn[0], 0)) == "h11.SERVER"
    ctx.check("C18.R1", "protocol.h11:H11Protocol.__init__", "h11.Connection(SERVER, max_incomplete_event_size=config.h11_max_incomplete_size)", ok, f"h11 connection built as {norm(conn[0]) if conn else 'missing'}", conn[0] if conn else h11i)
    h2i = repo.func("protocol.h2", "H2Protocol.__init__")
    st = [c for c in calls(h2i) if call_name(c) == "h2.settings.Settings"]
    ok = len(st) == 1
    vals: Dict[str, str] = {}
    if ok:
        iv = kwarg(st[0], "initial_values")
        if isinstance(iv, ast.Dict):
            for k, v in zip(iv.keys, iv.values):
                vals[norm(k).split(".")[-1]] = norm(v)
        ok = vals.get("MAX_CONCURRENT_STREAMS") == "config.h2_max_concurrent_streams" and vals.get("MAX_HEADER_LIST_SIZE") == "config.h2_max_header_list_size" and norm(kwarg(st[0], "client")) == "False"
    ctx.check("C18.R1", "protocol.h2:H2Protocol.__init__", "local settings: MAX_CONCURRENT_STREAMS / MAX_HEADER_LIST_SIZE from config", ok, f"initial_values: {vals}", st[0] if st else h2i)
    asg = [n for n in walk_local(h2i) if isinstance(n, ast.Assign) and norm(n.targets[0]) == "self.connection.local_settings"]
    ok = len(asg) == 1 and st and asg[0].value is st[0]
    ctx.check("C18.R1", "protocol.h2:H2Protocol.__init__", "settings installed as connection.local_settings", bool(ok), "the Settings object must be installed on the h2 connection", h2i)
    fr = [n for n in walk_local(h2i) if isinstance(n, ast.Assign) and norm(n.targets[0]) == "self.connection.DEFAULT_MAX_INBOUND_FRAME_SIZE"]
    ok = len(fr) == 1 and norm(fr[0].value) == "config.h2_max_inbound_frame_size"
    ctx.check("C18.R1", "protocol.h2:H2Protocol.__init__", "DEFAULT_MAX_INBOUND_FRAME_SIZE = config.h2_max_inbound_frame_size", ok, "inbound frame size limit not wired", fr[0] if fr else h2i)
    dec = [n for n in walk_local(h2i) if isinstance(n, ast.Assign) and norm(n.targets[0]) == "self.connection.decoder.max_header_list_size"]
    upd = [c for c in calls(h2i) if call_name(c) == "self.connection.update_settings" and "MAX_HEADER_LIST_SIZE" in norm(c)]
    ok = (len(dec) == 1 and norm(dec[0].value) == "config.h2_max_header_list_size" and not guard_atoms(dec[0])) or bool(upd)
    ctx.check("C18.R1", "protocol.h2:H2Protocol.__init__", "h2_max_header_list_size reaches the HPACK decoder", ok,
              "h2 copies MAX_HEADER_LIST_SIZE to its decoder only when an acknowledged settings change arrives; replacing local_settings is not a change, so the configured limit is advertised but header blocks are checked against h2's default 65536", dec[0] if dec else h2i)
    ws = repo.func("protocol.ws_stream", "WSStream.__init__")
    wb = [c for c in calls(ws) if call_name(c) == "WebsocketBuffer"]
    ok = len(wb) == 1 and norm(arg(wb[0], 0)) == "config.websocket_max_message_size"
    ctx.check("C18.R1", "protocol.ws_stream:WSStream.__init__", "WebsocketBuffer(config.websocket_max_message_size)", ok, "websocket message limit not wired", wb[0] if wb else ws)
    wbi = repo.func("protocol.ws_stream", "WebsocketBuffer.__init__")
    ok = any(isinstance(n, ast.Assign) and dotted(n.targets[0]) == "self.max_length" and norm(n.value) == "max_length" for n in walk_local(wbi))
    ctx.check("C18.R1", "protocol.ws_stream:WebsocketBuffer.__init__", "max_length stored", ok, "the limit must be stored unmodified", wbi)
    for mod, fn_ in (("asyncio.run", "asyncio_worker"), ("asyncio.run", "uvloop_worker"), ("trio.run", "trio_worker")):
        fn = repo.func(mod, fn_)
        la = [c for c in calls(fn) if call_name(c) == "load_application"]
        ok = len(la) == 1 and norm(arg(la[0], 1)) == "config.wsgi_max_body_size" and norm(arg(la[0], 0)) == "config.application_path"
        ctx.check("C18.R1", f"{mod}:{fn_}", "load_application(config.application_path, config.wsgi_max_body_size)", ok, "WSGI body limit not wired", la[0] if la else fn)
    la = repo.func("utils", "load_application")
    wa = repo.func("utils", "wrap_app")
    c1 = [c for c in calls(la) if call_name(c) == "wrap_app"]
    c2 = [c for c in calls(wa) if call_name(c) == "WSGIWrapper"]
    ok = len(c1) == 1 and norm(arg(c1[0], 1)) == "wsgi_max_body_size" and len(c2) == 1 and norm(arg(c2[0], 1)) == "wsgi_max_body_size"
    wi = repo.func("app_wrappers", "WSGIWrapper.__init__")
    ok = ok and any(isinstance(n, ast.Assign) and dotted(n.targets[0]) == "self.max_body_size" and norm(n.value) == "max_body_size" for n in walk_local(wi))
    ctx.check("C18.R1", "utils:load_application", "wsgi_max_body_size -> wrap_app -> WSGIWrapper.max_body_size", ok, "WSGI body limit lost on the way to the wrapper", la)
    for mod in ("asyncio.task_group", "trio.task_group"):
        fn = repo.func(mod, "TaskGroup.spawn_app")
        ok = "max_app_queue_size" in _cfg_reads(fn)
        ctx.check("C18.R1", f"{mod}:TaskGroup.spawn_app", "queue bound from config.max_app_queue_size", ok, "app queue bound not wired", fn)
    # no limit key is read at another limit's sink: collect every read of each key over the whole package
    readers: Dict[str, List[str]] = {k: [] for k in LIMIT_KEYS}
    for mod, q, fn in repo.all_functions():
        if mod in ("config", "__main__"):
            continue
        for k in _cfg_reads(fn) & set(LIMIT_KEYS):
            if not any(q.startswith(o + ".") for _, o, _ in []):
                readers[k].append(f"{mod}:{q}")
                readers[k].append(f"{mod}:{q.split('.')[0]}.*")
    expect = {
        "h11_max_incomplete_size": {"protocol.h11:H11Protocol.__init__"},
        "h2_max_concurrent_streams": {"protocol.h2:H2Protocol.__init__"},
        "h2_max_header_list_size": {"protocol.h2:H2Protocol.__init__"},
        "h2_max_inbound_frame_size": {"protocol.h2:H2Protocol.__init__"},
        "keep_alive_max_requests": {"protocol.h11:H11Protocol.*", "protocol.h2:H2Protocol.*"},
        "websocket_max_message_size": {"protocol.ws_stream:WSStream.__init__"},
        "wsgi_max_body_size": {"asyncio.run:asyncio_worker", "asyncio.run:uvloop_worker", "trio.run:trio_worker"},
        "max_requests": {"asyncio.run:worker_serve", "trio.run:worker_serve"},
        "max_requests_jitter": {"asyncio.run:worker_serve", "trio.run:worker_serve"},
    }
    for k, want in expect.items():
        got = set(readers[k])
        ctx.check("C18.R1", "hypercorn", f"readers of config.{k}", want <= got, f"config.{k} is read by {sorted(got)}; expected at least {sorted(want)}", None)

    # ---- R2 comparators
    he = repo.func("protocol.h2", "H2Protocol._handle_events")
    cc = [c for c in find_calls(he, "self.connection.close_connection")]
    ok = len(cc) == 1
    detail = ""
    if ok:
        gs = [(t, p) for t, p in guards(cc[0]) if "keep_alive" in norm(t)]
        ok = len(gs) == 1
        if ok:
            for req, mx, want in ((1, 1, False), (2, 1, True), (1000, 1000, False), (1001, 1000, True), (1, 0, True)):
                try:
                    got = bool(eval_expr(gs[0][0], {"self.keep_alive_requests": req, "self.config.keep_alive_max_requests": mx})) == gs[0][1]
                except Unknown:
                    got = None
                if got != want:
                    ok = False
                    detail = f"with {req} requests and maximum {mx}: GOAWAY is {got}, expected {want}"
        ok = ok and ("isinstance(event, h2.events.RequestReceived)", True) in guard_atoms(cc[0])
    ctx.check("C18.R2", "protocol.h2:H2Protocol._handle_events", "GOAWAY iff keep_alive_requests > keep_alive_max_requests (one more than HTTP/1)", ok, detail or "HTTP/2 request-maximum comparison missing", cc[0] if cc else he)
    crs = find_calls(he, "self._create_stream")
    ok = bool(cc) and bool(crs) and crs[0].lineno < cc[0].lineno and not any(isinstance(a, ast.If) and any(crs[0] is x for x in ast.walk(a)) and any(cc[0] is x for x in ast.walk(a)) and a.test is not None and "RequestReceived" not in norm(a.test) for a in __import__("hcverif.astq", fromlist=["ancestors"]).ancestors(cc[0]))
    ctx.check("C18.R2", "protocol.h2:H2Protocol._handle_events", "the request is counted (_create_stream) before the maximum is compared", ok, "comparing before the new stream was counted lets one more request through", cc[0] if cc else he)
    for mod in ("asyncio.worker_context", "trio.worker_context"):
        mr = repo.func(mod, "WorkerContext.mark_request")
        w = f"{mod}:WorkerContext.mark_request"
        ts = find_calls(mr, "self.terminate.set")
        ok = len(ts) == 1
        detail = ""
        if ok:
            gs = [(t, p) for t, p in guards(ts[0]) if "self.requests" in norm(t)]
            ok = len(gs) == 1
            if ok:
                for req, mx, want in ((1, 1, False), (2, 1, True), (0, 0, False), (1, 0, True)):
                    try:
                        got = bool(eval_expr(gs[0][0], {"self.requests": req, "self.max_requests": mx})) == gs[0][1]
                    except Unknown:
                        got = None
                    if got != want:
                        ok = False
                        detail = f"requests={req} max={mx}: terminate is {got}, expected {want}"
        ctx.check("C18.R2", w, "terminate.set() iff requests > max_requests", ok, detail or "termination comparison missing", ts[0] if ts else mr)
        incs = [n for n in walk_local(mr) if isinstance(n, ast.AugAssign) and dotted(n.target) == "self.requests"]
        ok = len(incs) == 1 and isinstance(incs[0].op, ast.Add) and norm(incs[0].value) == "1" and ts and incs[0].lineno < ts[0].lineno
        ga = guard_atoms(incs[0]) if incs else set()
        ok = ok and ga <= {("self.max_requests is None", False)}
        ctx.check("C18.R2", w, "requests += 1 before the comparison (skipped only when max_requests is None)", ok, f"increment guards: {sorted(ga)}", incs[0] if incs else mr)
        ini = repo.func(mod, "WorkerContext.__init__")
        stores = {dotted(n.targets[0]): norm(n.value) for n in walk_local(ini) if isinstance(n, ast.Assign)}
        ok = stores.get("self.max_requests") == "max_requests" and stores.get("self.requests") == "0"
        ctx.check("C18.R2", f"{mod}:WorkerContext.__init__", "max_requests stored, requests start at 0", ok, f"stores: {stores}", ini)

    # ---- R3
    for mod, cls in (("protocol.h11", "H11Protocol"), ("protocol.h2", "H2Protocol")):
        cs = repo.func(mod, f"{cls}._create_stream")
        mk = [c for c in calls(cs) if call_name(c) == "self.context.mark_request"]
        ok = len(mk) == 1 and isinstance(getattr(mk[0], "_parent", None), ast.Await) and not guard_atoms(mk[0]) and not any(isinstance(a, (ast.For, ast.While)) for a in ancestors(mk[0]))
        ctx.check("C18.R3", f"{mod}:{cls}._create_stream", "await context.mark_request() once, unconditionally", ok, "every created stream must be counted by the worker", mk[0] if mk else cs)
        incs = [n for n in walk_local(cs) if isinstance(n, ast.AugAssign) and dotted(n.target) == "self.keep_alive_requests"]
        ok = len(incs) == 1 and norm(incs[0].value) == "1" and isinstance(incs[0].op, ast.Add) and not guard_atoms(incs[0])
        ctx.check("C18.R3", f"{mod}:{cls}._create_stream", "keep_alive_requests += 1 once, unconditionally", ok, "every created stream must count against the connection maximum", incs[0] if incs else cs)

    # ---- R4
    for mod in ("asyncio.run", "trio.run"):
        ws_ = repo.func(mod, "worker_serve")
        w = f"{mod}:worker_serve"
        asg = [n for n in walk_local(ws_) if isinstance(n, ast.Assign) and dotted(n.targets[0]) == "max_requests" and norm(n.value) != "None"]
        ok = len(asg) == 1 and norm(asg[0].value) == "config.max_requests + randint(0, config.max_requests_jitter)" and ("config.max_requests is not None", True) in guard_atoms(asg[0])
        ctx.check("C18.R4", w, "max_requests = config.max_requests + randint(0, config.max_requests_jitter)", ok, f"computed as {[norm(a.value) for a in asg]}", asg[0] if asg else ws_)
        wc = [c for c in calls(ws_) if call_name(c) == "WorkerContext"]
        ok = len(wc) == 1 and norm(arg(wc[0], 0)) == "max_requests"
        ctx.check("C18.R4", w, "WorkerContext(max_requests)", ok, "the jittered maximum must reach the worker context", wc[0] if wc else ws_)
        trig = []
        for c in calls(ws_):
            if call_name(c) == "raise_shutdown" and c.args:
                trig.append((norm(c.args[0]), c))
            elif c.args and norm(c.args[0]) == "raise_shutdown" and len(c.args) > 1:
                trig.append((norm(c.args[1]), c))
        rs = [c for t, c in trig if t == "context.terminate.wait"]
        rt = [c for t, c in trig if t == "shutdown_trigger"]
        ok = len(rs) == 1 and len(rt) == 1
        if ok:
            # same task group / nursery: same enclosing `async with`
            def scope(c):
                for a in ancestors(c):
                    if isinstance(a, ast.AsyncWith):
                        return a
                return None
            ok = scope(rs[0]) is not None and scope(rs[0]) is scope(rt[0]) and not (guard_atoms(rs[0], stop=scope(rs[0])))
        ctx.check("C18.R4", w, "terminate.wait raced with the shutdown trigger", ok, "worker recycling must trigger the same graceful exit as the shutdown trigger", rs[0] if rs else ws_)
        imp = [n for n in repo.module(mod).tree.body if isinstance(n, ast.ImportFrom) and n.module == "random" and any(a.name == "randint" for a in n.names)]
        ctx.check("C18.R4", w, "randint is random.randint", len(imp) == 1, "randint must be random.randint", None)

    # ---- R5 defaults
    cls = repo.cls("config", "Config")
    defaults: Dict[str, ast.AST] = {}
    consts = {"BYTES": 1, "OCTETS": 1, "SECONDS": 1.0}
    for n in cls.body:
        if isinstance(n, ast.Assign) and isinstance(n.targets[0], ast.Name):
            defaults[n.targets[0].id] = n.value
        elif isinstance(n, ast.AnnAssign) and isinstance(n.target, ast.Name) and n.value is not None:
            defaults[n.target.id] = n.value
    for k in LIMIT_KEYS:
        v = defaults.get(k)
        ok = v is not None
        val = None
        if ok:
            try:
                val = eval_expr(v, consts)
            except Unknown:
                ok = False
        if k == "max_requests":
            ok = ok and val is None
        elif k == "max_requests_jitter":
            ok = ok and isinstance(val, int) and val >= 0
        else:
            ok = ok and isinstance(val, (int, float)) and val > 0
        ctx.check("C18.R5", "config:Config", f"default {k}", ok, f"Config.{k} default is {norm(v) if v is not None else 'missing'}", v)

    # ---- R7 the supervisor replaces workers that exit cleanly (e.g. after max_requests)
    ctx.rule("C18.R7", "supervisor: exited workers are joined and removed, the loop re-populates up to config.workers with the same worker function / config / sockets / shutdown event, and a non-zero exit code stops everything; serve() wires wsgi_max_body_size and the shutdown trigger", floor=5)
    rn = repo.func("run", "run")
    wl = [n for n in walk_local(rn) if isinstance(n, ast.While) and norm(n.test) == "active"]
    ok = len(wl) == 1
    pop = [c for c in calls(rn) if call_name(c) == "_populate"]
    je = [c for c in calls(rn) if call_name(c) == "_join_exited"]
    if ok:
        inloop = lambda c: any(a is wl[0] for a in __import__("hcverif.astq", fromlist=["ancestors"]).ancestors(c))
        ok = len(pop) == 1 and inloop(pop[0]) and [norm(a) for a in pop[0].args] == ["processes", "config", "worker_func", "sockets", "shutdown_event", "ctx"] and any(inloop(c) for c in je) and pop[0].lineno < min(c.lineno for c in je) and not {a for a in guard_atoms(pop[0], stop=wl[0]) if a[0] != "active"}
    ctx.check("C18.R7", "run:run", "while active: _populate(...); wait; _join_exited(...)", ok, "an exited worker would not be replaced", wl[0] if wl else rn)
    stop = [n for n in walk_local(rn) if isinstance(n, ast.Assign) and dotted(n.targets[0]) == "active" and norm(n.value) == "False" and ("exitcode != 0", True) in guard_atoms(n)]
    ctx.check("C18.R7", "run:run", "non-zero worker exit code ends the supervisor loop", len(stop) == 1, "a crashing worker must stop the server instead of being restarted forever", stop[0] if stop else rn)
    pp = repo.func("run", "_populate")
    rng = [n for n in walk_local(pp) if isinstance(n, ast.For)]
    from ..astq import expand_locals

    ok = len(rng) == 1 and norm(expand_locals(rng[0].iter, pp)) == "range(config.workers - len(processes))"
    pr = [c for c in calls(pp) if call_name(c) == "ctx.Process"]
    ok = ok and len(pr) == 1 and norm(kwarg(pr[0], "target")) == "worker_func" and norm(kwarg(pr[0], "kwargs")) == "{'config': config, 'shutdown_event': shutdown_event, 'sockets': sockets}" and "processes.append(process)" in norm(pp) and "process.start()" in norm(pp)
    ctx.check("C18.R7", "run:_populate", "starts config.workers - len(processes) workers with (config, shutdown_event, sockets)", ok, "worker replacement changed", pp)
    jx = repo.func("run", "_join_exited")
    ok = "worker.exitcode is not None" in norm(jx) and "del processes[index]" in norm(jx) and "worker.join()" in norm(jx)
    ctx.check("C18.R7", "run:_join_exited", "exited workers joined and removed from the list", ok, "exited workers must leave the process list so that they are replaced", jx)
    for rt in ("asyncio", "trio"):
        sv = repo.func(rt, "serve")
        ws_ = [c for c in calls(sv) if call_name(c) == "worker_serve"]
        ok = len(ws_) == 1 and norm(arg(ws_[0], 0)) == "wrap_app(app, config.wsgi_max_body_size, mode)" and norm(arg(ws_[0], 1)) == "config" and norm(kwarg(ws_[0], "shutdown_trigger")) == "shutdown_trigger"
        ctx.check("C18.R7", f"{rt}:serve", "worker_serve(wrap_app(app, config.wsgi_max_body_size, mode), config, shutdown_trigger=shutdown_trigger)", ok, "serve() must pass the WSGI body limit and the caller's shutdown trigger", ws_[0] if ws_ else sv)

    from ..core import Alias
    from . import c06

    c06.run(Alias(ctx, "C18.R6", "HTTP/1: connection: close is announced exactly when keep_alive_requests >= keep_alive_max_requests and the counter grows by one per request (same analysis as C06.R2)", only={"C06.R2"}))

    ctx.assume("not decided: that h11 / h2 / wsproto enforce the limits they are configured with (trusted libraries)")
