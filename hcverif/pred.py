"""Finite predicate tables: evaluate guard conjunctions / small predicates over enumerated domains.

The evaluator is the checker's own interpreter for boolean / comparison / constant nodes;
repository code is never eval()'d.
"""
from __future__ import annotations

import ast
import itertools
from typing import Any, Callable, Dict, Iterable, List, Optional, Sequence, Set, Tuple

from .astq import Guard, canon_atom, norm
from .core import AnalysisError


def bool_atoms(test: ast.AST) -> Set[str]:
    """Atomic (non and/or/not) sub-expressions of a boolean expression, normalised."""
    if isinstance(test, ast.UnaryOp) and isinstance(test.op, ast.Not):
        return bool_atoms(test.operand)
    if isinstance(test, ast.BoolOp):
        out: Set[str] = set()
        for v in test.values:
            out |= bool_atoms(v)
        return out
    return {canon_atom((norm(test), True))[0]}


def eval_bool(test: ast.AST, env: Dict[str, bool]) -> bool:
    if isinstance(test, ast.UnaryOp) and isinstance(test.op, ast.Not):
        return not eval_bool(test.operand, env)
    if isinstance(test, ast.BoolOp):
        vals = [eval_bool(v, env) for v in test.values]
        return all(vals) if isinstance(test.op, ast.And) else any(vals)
    if isinstance(test, ast.Constant):
        return bool(test.value)
    key, pol = canon_atom((norm(test), True))
    if key not in env:
        raise AnalysisError(f"predicate table: atom {key!r} has no value")
    return env[key] if pol else not env[key]


def guards_table(
    gs: Sequence[Guard],
    expected: Callable[[Dict[str, bool]], bool],
    fixed: Optional[Dict[str, bool]] = None,
    canon: Optional[Callable[[str], Optional[str]]] = None,
) -> Optional[Dict[str, bool]]:
    """Compare conjunction-of-guards with ``expected`` over all assignments of the atoms.

    ``canon`` maps an atom's text to a canonical variable name (or None = unknown atom:
    treated as a free variable).  ``fixed`` pins canonical variables.  Returns a
    counter-example assignment or None if the two agree everywhere.
    """
    fixed = fixed or {}
    atom_texts: Set[str] = set()
    for test, _ in gs:
        atom_texts |= bool_atoms(test)
    name_of: Dict[str, str] = {}
    for t in atom_texts:
        c = canon(t) if canon else None
        name_of[t] = c if c is not None else t
    free = sorted({n for n in name_of.values() if n not in fixed})
    # expected may mention canonical variables that do not occur in the guards
    for combo in itertools.product([False, True], repeat=len(free)):
        assign = dict(zip(free, combo))
        assign.update(fixed)
        env = {t: assign[name_of[t]] for t in atom_texts}
        got = all(eval_bool(test, env) == pol for test, pol in gs)
        try:
            want = expected(assign)
        except KeyError:
            want = expected({**{k: False for k in ()}, **assign})
        if got != want:
            return assign
    return None


# ------------------------------------------------------------------ tiny value evaluator


class Unknown(Exception):
    pass


class _Raised(Exception):
    """The interpreted function raised (value = normalised exception expression)."""


class _Unevaluated:
    def __repr__(self) -> str:
        return "<unevaluated>"


UNEVALUATED = _Unevaluated()


class Rec:
    """A sample record whose attributes the evaluator may read (e.g. a stream with `.idle`)."""

    def __init__(self, **fields: Any) -> None:
        self.fields = fields

    def __repr__(self) -> str:
        return "Rec(" + ", ".join(f"{k}={v!r}" for k, v in self.fields.items()) + ")"


def eval_expr(node: ast.AST, env: Dict[str, Any]) -> Any:
    """Evaluate constants, names from env, comparisons, bool ops, set/tuple displays, `in`."""
    if isinstance(node, ast.Constant):
        return node.value
    if isinstance(node, ast.Name):
        if node.id in env:
            if env[node.id] is UNEVALUATED:
                raise Unknown(f"{node.id} (bound to a value the evaluator cannot compute)")
            return env[node.id]
        raise Unknown(node.id)
    if isinstance(node, ast.Attribute):
        key = norm(node)
        if key in env:
            return env[key]
        try:
            base = eval_expr(node.value, env)
        except Unknown:
            raise Unknown(key)
        if isinstance(base, Rec) and node.attr in base.fields:
            return base.fields[node.attr]
        raise Unknown(key)
    if isinstance(node, (ast.Set, ast.Tuple, ast.List)):
        vals = [eval_expr(e, env) for e in node.elts]
        if isinstance(node, ast.Set):
            return set(vals)
        return list(vals) if isinstance(node, ast.List) else tuple(vals)
    if isinstance(node, ast.UnaryOp):
        v = eval_expr(node.operand, env)
        if isinstance(node.op, ast.Not):
            return not v
        if isinstance(node.op, ast.USub):
            return -v
        raise Unknown(norm(node))
    if isinstance(node, ast.BoolOp):
        if isinstance(node.op, ast.And):
            v = True
            for x in node.values:
                v = eval_expr(x, env)
                if not v:
                    return v
            return v
        v = False
        for x in node.values:
            v = eval_expr(x, env)
            if v:
                return v
        return v
    if isinstance(node, ast.Compare):
        left = eval_expr(node.left, env)
        for op, comp in zip(node.ops, node.comparators):
            right = eval_expr(comp, env)
            if isinstance(op, (ast.Lt, ast.LtE, ast.Gt, ast.GtE)):
                try:
                    left < right  # noqa: B015 - probe: ordering between these values defined?
                except TypeError as error:
                    raise _Raised(f"TypeError: {error}")
            if isinstance(op, ast.Eq):
                ok = left == right
            elif isinstance(op, ast.NotEq):
                ok = left != right
            elif isinstance(op, ast.Lt):
                ok = left < right
            elif isinstance(op, ast.LtE):
                ok = left <= right
            elif isinstance(op, ast.Gt):
                ok = left > right
            elif isinstance(op, ast.GtE):
                ok = left >= right
            elif isinstance(op, ast.In):
                ok = left in right
            elif isinstance(op, ast.NotIn):
                ok = left not in right
            elif isinstance(op, ast.Is):
                ok = left is right
            elif isinstance(op, ast.IsNot):
                ok = left is not right
            else:
                raise Unknown(norm(node))
            if not ok:
                return False
            left = right
        return True
    if isinstance(node, ast.BinOp):
        l, r = eval_expr(node.left, env), eval_expr(node.right, env)
        if isinstance(node.op, ast.Add):
            return l + r
        if isinstance(node.op, ast.Sub):
            return l - r
        if isinstance(node.op, ast.Mult):
            return l * r
        if isinstance(node.op, ast.Pow):
            return l ** r
        if isinstance(node.op, ast.FloorDiv):
            return l // r
        if isinstance(node.op, ast.Div):
            return l / r
        if isinstance(node.op, ast.Mod) and isinstance(l, (str, bytes)):
            try:
                return l % r
            except Exception as error:
                raise _Raised(f"{type(error).__name__}: {error}")
        if isinstance(node.op, ast.Mod):
            return l % r
        raise Unknown(norm(node))
    if isinstance(node, ast.JoinedStr):
        out_s = ""
        for part in node.values:
            if isinstance(part, ast.Constant):
                out_s += str(part.value)
            elif isinstance(part, ast.FormattedValue) and part.format_spec is None and part.conversion in (-1, 115, 114):
                v = eval_expr(part.value, env)
                out_s += repr(v) if part.conversion == 114 else str(v)
            else:
                raise Unknown(norm(node))
        return out_s
    if isinstance(node, ast.DictComp) and len(node.generators) == 1 and not node.generators[0].is_async:
        gen = node.generators[0]
        outd: Dict[Any, Any] = {}
        for item in eval_expr(gen.iter, env):
            inner = dict(env)
            _bind(gen.target, item, inner)
            if all(eval_expr(c, inner) for c in gen.ifs):
                outd[eval_expr(node.key, inner)] = eval_expr(node.value, inner)
        return outd
    if isinstance(node, ast.Dict) and all(k is not None for k in node.keys):
        return {eval_expr(k, env): eval_expr(v, env) for k, v in zip(node.keys, node.values)}
    if isinstance(node, ast.IfExp):
        return eval_expr(node.body, env) if eval_expr(node.test, env) else eval_expr(node.orelse, env)
    if isinstance(node, ast.Subscript):
        key = norm(node)
        if key in env:
            return env[key]
        base = eval_expr(node.value, env)
        sl = node.slice
        if isinstance(sl, ast.Slice):
            lo = eval_expr(sl.lower, env) if sl.lower is not None else None
            hi = eval_expr(sl.upper, env) if sl.upper is not None else None
            st = eval_expr(sl.step, env) if sl.step is not None else None
            return base[lo:hi:st]
        try:
            return base[eval_expr(sl, env)]
        except (IndexError, KeyError, TypeError) as error:
            raise Unknown(f"{key}: {error}")
    if isinstance(node, ast.Call):
        fn = norm(node.func)
        key = norm(node)
        if key in env:
            return env[key]
        if ("call:" + fn) in env:
            return env["call:" + fn](*[eval_expr(a, env) for a in node.args], **{k.arg: eval_expr(k.value, env) for k in node.keywords if k.arg})
        if fn in _PURE_BUILTINS and not node.keywords:
            args = [eval_expr(a, env) for a in node.args]
            try:
                return _PURE_BUILTINS[fn](*args)
            except Exception as error:
                raise _Raised(f"{type(error).__name__}: {error}")
        if isinstance(node.func, ast.Attribute) and node.func.attr in ("write", "getvalue") and not node.keywords:
            import io as _io

            try:
                recv = eval_expr(node.func.value, env)
            except Unknown:
                recv = None
            if isinstance(recv, (_io.StringIO, _io.BytesIO)):
                try:
                    return getattr(recv, node.func.attr)(*[eval_expr(a, env) for a in node.args])
                except Exception as error:
                    raise _Raised(f"{type(error).__name__}: {error}")
        if isinstance(node.func, ast.Attribute) and node.func.attr in _PURE_METHODS and not node.keywords:
            v = eval_expr(node.func.value, env)
            if not isinstance(v, (str, bytes, bytearray, tuple, list, dict, set, frozenset)):
                raise Unknown(key)
            if isinstance(v, (list, dict, set)) and node.func.attr not in ("get", "items", "keys", "values", "count", "index"):
                raise Unknown(key)
            args = [eval_expr(a, env) for a in node.args]
            try:
                return getattr(v, node.func.attr)(*args)
            except Exception as error:
                raise _Raised(f"{type(error).__name__}: {error}")
        raise Unknown(norm(node))
    if isinstance(node, (ast.GeneratorExp, ast.ListComp, ast.SetComp)):
        out = []

        def gen_loop(i: int, local: Dict[str, Any]) -> None:
            if i == len(node.generators):
                out.append(eval_expr(node.elt, local))
                return
            gen = node.generators[i]
            if gen.is_async:
                raise Unknown(norm(node))
            for item in eval_expr(gen.iter, local):
                inner = dict(local)
                _bind(gen.target, item, inner)
                if all(eval_expr(c, inner) for c in gen.ifs):
                    gen_loop(i + 1, inner)

        gen_loop(0, dict(env))
        return set(out) if isinstance(node, ast.SetComp) else out
    raise Unknown(norm(node))


_PURE_BUILTINS = {"int": int, "bool": bool, "len": len, "min": min, "max": max, "any": any, "all": all, "bytes": bytes, "str": str, "list": list, "tuple": tuple, "sorted": sorted, "isinstance": None}
_PURE_BUILTINS.pop("isinstance")
_PURE_BUILTINS["next"] = lambda it, *d: next(iter(it), *d)
_PURE_BUILTINS["enumerate"] = lambda it, *a: list(enumerate(it, *a))
_PURE_BUILTINS["zip"] = lambda *a: list(zip(*a))
_PURE_BUILTINS["reversed"] = lambda it: list(reversed(it))
_PURE_BUILTINS["set"] = set
_PURE_BUILTINS["frozenset"] = frozenset
_PURE_BUILTINS["dict"] = dict
_PURE_BUILTINS["sum"] = sum
_PURE_BUILTINS["abs"] = abs
_PURE_BUILTINS["repr"] = repr
_PURE_BUILTINS["dict.fromkeys"] = dict.fromkeys
# pure standard-library functions the repository imports by name (never repository code)
import urllib.parse as _up

_PURE_BUILTINS["urlunsplit"] = _up.urlunsplit
_PURE_BUILTINS["unquote"] = _up.unquote
_PURE_METHODS = {"upper", "lower", "strip", "lstrip", "rstrip", "split", "rsplit", "startswith", "endswith", "decode", "encode", "partition", "rpartition", "replace", "get", "items", "keys", "values", "count", "index", "title", "join"}


def _bind(target: ast.AST, value: Any, env: Dict[str, Any]) -> None:
    if isinstance(target, ast.Name):
        env[target.id] = value
    elif isinstance(target, (ast.Tuple, ast.List)):
        vals = list(value)
        if len(vals) != len(target.elts):
            raise Unknown("unpack")
        for t, v in zip(target.elts, vals):
            _bind(t, v, env)
    else:
        raise Unknown(norm(target))


def single_return_expr(func: ast.AST) -> ast.AST:
    body = [s for s in func.body if not (isinstance(s, ast.Expr) and isinstance(s.value, ast.Constant))]
    if len(body) == 1 and isinstance(body[0], ast.Return) and body[0].value is not None:
        return body[0].value
    raise AnalysisError(f"{getattr(func, 'name', '?')}: expected a single `return <expr>` body")


def eval_function(func: ast.AST, env: Dict[str, Any], depth: int = 0, want_env: bool = False) -> Any:
    """Interpret a small pure function: if/elif/else + return + simple assignments.
    ``want_env``: return the final local bindings instead of the return value."""
    local = dict(env)

    class _Ret(Exception):
        def __init__(self, v):
            self.v = v

    class _Brk(Exception):
        pass

    class _Cont(Exception):
        pass

    def block(stmts):
        for s in stmts:
            if isinstance(s, ast.Return):
                raise _Ret(eval_expr(s.value, local) if s.value is not None else None)
            elif isinstance(s, ast.If):
                if eval_expr(s.test, local):
                    block(s.body)
                else:
                    block(s.orelse)
            elif isinstance(s, ast.Assign) and len(s.targets) == 1 and isinstance(s.targets[0], ast.Subscript) and isinstance(s.targets[0].value, ast.Name) and isinstance(local.get(s.targets[0].value.id), (list, dict)):
                cont = local[s.targets[0].value.id]
                cont = list(cont) if isinstance(cont, list) else dict(cont)
                try:
                    cont[eval_expr(s.targets[0].slice, local)] = eval_expr(s.value, local)
                except (IndexError, TypeError) as error:
                    raise _Raised(f"{type(error).__name__}: {error}")
                local[s.targets[0].value.id] = cont
            elif isinstance(s, ast.Assign) and len(s.targets) == 1 and isinstance(s.targets[0], ast.Attribute) and isinstance(s.targets[0].value, ast.Name):
                local[norm(s.targets[0])] = eval_expr(s.value, local)
            elif isinstance(s, ast.Assign) and len(s.targets) == 1:
                try:
                    val = eval_expr(s.value, local)
                except Unknown:
                    if not local.get("__lenient__") or not isinstance(s.targets[0], ast.Name):
                        raise
                    val = UNEVALUATED  # only an error if something later reads it
                _bind(s.targets[0], val, local)
            elif isinstance(s, ast.AnnAssign) and s.value is not None and isinstance(s.target, ast.Attribute):
                local[norm(s.target)] = eval_expr(s.value, local)
            elif isinstance(s, ast.AnnAssign) and s.value is not None:
                try:
                    val = eval_expr(s.value, local)
                except Unknown:
                    if not local.get("__lenient__") or not isinstance(s.target, ast.Name):
                        raise
                    val = UNEVALUATED
                _bind(s.target, val, local)
            elif isinstance(s, ast.AnnAssign):
                continue
            elif isinstance(s, ast.AugAssign) and isinstance(s.target, ast.Name) and isinstance(s.op, ast.Add):
                local[s.target.id] = eval_expr(s.target, local) + eval_expr(s.value, local)
            elif isinstance(s, ast.AugAssign) and isinstance(s.target, ast.Attribute) and isinstance(s.op, (ast.Add, ast.Sub)):
                cur = eval_expr(s.target, local)
                delta = eval_expr(s.value, local)
                local[norm(s.target)] = cur + delta if isinstance(s.op, ast.Add) else cur - delta
            elif isinstance(s, ast.For):
                try:
                    for item in list(eval_expr(s.iter, local)):
                        _bind(s.target, item, local)
                        try:
                            block(s.body)
                        except _Cont:
                            continue
                    block(s.orelse)
                except _Brk:
                    pass
            elif isinstance(s, ast.Break):
                raise _Brk()
            elif isinstance(s, ast.Continue):
                raise _Cont()
            elif isinstance(s, ast.Expr) and isinstance(s.value, ast.Constant):
                continue
            elif isinstance(s, ast.Expr) and isinstance(s.value, ast.Call) and isinstance(s.value.func, ast.Attribute) and s.value.func.attr in ("append", "extend") and isinstance(s.value.func.value, ast.Name) and isinstance(local.get(s.value.func.value.id), list):
                arg = eval_expr(s.value.args[0], local)
                lst = list(local[s.value.func.value.id])
                lst.append(arg) if s.value.func.attr == "append" else lst.extend(arg)
                local[s.value.func.value.id] = lst
            elif isinstance(s, (ast.Pass, ast.Nonlocal, ast.Global, ast.Import, ast.ImportFrom)):
                continue
            elif isinstance(s, ast.Expr) and isinstance(s.value, ast.Call):
                eval_expr(s.value, local)  # only what the evaluator itself can perform (else Unknown)
            elif isinstance(s, ast.Raise):
                raise _Raised(norm(s.exc) if s.exc is not None else "raise")
            else:
                raise Unknown(f"statement {norm(s)[:60]}")

    try:
        block(func.body)
    except _Ret as r:
        return local if want_env else r.v
    except _Raised as r:
        r.env = dict(local)  # type: ignore[attr-defined]  # the bindings made before the raise
        raise
    return local if want_env else None
