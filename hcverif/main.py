"""Entry point: ./check <Cxx> [--tier quick|thorough] [--replay path]"""
from __future__ import annotations

import argparse
import importlib
import json
import os
import sys
import time
import traceback

from .core import AnalysisError, Ctx, Repo, finish

PROPS = [f"C{i:02d}" for i in range(1, 21)]


def run_property(prop: str, tier: str, repo_root=None, quiet: bool = False) -> int:
    started = time.time()
    seed = int(os.environ.get("VERIF_SEED", "0") or 0)
    ctx = None
    try:
        repo = Repo(repo_root)
        ctx = Ctx(prop, repo, tier)
        mod = importlib.import_module(f"hcverif.rules.{prop.lower()}")
        mod.run(ctx)
        return finish(ctx, started, seed)
    except AnalysisError as error:
        # the analysis could not be completed; violations established before that point stand
        rc = 2
        if ctx is not None and ctx.findings:
            try:
                if finish(ctx, started, seed, partial=str(error)) == 1:
                    rc = 1
            except AnalysisError:
                pass
        print(f"ANALYSIS-ERROR property={prop} {error}")
        return rc
    except Exception as error:  # internal bug: never masquerade as a violation
        traceback.print_exc()
        print(f"ANALYSIS-ERROR property={prop} internal error {type(error).__name__}: {error}")
        return 2


def main(argv=None) -> int:
    ap = argparse.ArgumentParser(prog="check")
    ap.add_argument("property", help="C01..C20, 'all', or 'selftest'")
    ap.add_argument("--tier", default=os.environ.get("VERIF_TIER", "quick"), choices=["quick", "thorough"])
    ap.add_argument("--replay", default=None, help="print a stored violation record and re-run the check")
    ap.add_argument("--repo", default=None, help="analyse this checkout instead of /repo (used by the self-test)")
    ap.add_argument("--jobs", type=int, default=16)
    ap.add_argument("--only", default=None, help="selftest: only mutants whose id contains this text")
    args = ap.parse_args(argv)

    if args.replay:
        try:
            rec = json.load(open(args.replay))
            print(json.dumps(rec, indent=1))
        except Exception as error:
            print(f"cannot read replay file: {error}")
    if args.property == "selftest":
        from .selftest import run_selftest

        return run_selftest(None, jobs=args.jobs, only=args.only)
    if args.property == "all":
        worst = 0
        for p in PROPS:
            rc = run_property(p, args.tier, args.repo)
            worst = max(worst, rc)
        return worst
    prop = args.property.upper()
    if prop not in PROPS:
        print(f"unknown property {prop}")
        return 2
    rc = run_property(prop, args.tier, args.repo)
    if args.tier == "thorough" and rc == 0 and args.repo is None:
        # thorough = quick at the current tree + the checker's own self-test for this
        # property's rules (mutants must fire, neutral edits must stay silent); self-test
        # results are reported in the evidence and never become a VIOLATION.
        try:
            from .selftest import run_selftest

            run_selftest(prop, jobs=args.jobs, only=None, attach_to_evidence=True)
        except Exception as error:  # pragma: no cover
            traceback.print_exc()
            print(f"SELFTEST-ERROR {error}")
    return rc


if __name__ == "__main__":
    sys.exit(main())
