"""Canonicalising pre-pass: behaviour-preserving rewrites applied to the parsed tree
before any rule looks at it, so that routine refactors do not change what the rules see.

Every rewrite is an equivalence of Python semantics under the stated side conditions;
when a side condition cannot be established the construct is left alone (the rules then
see the refactored shape and may report an anchor problem, never a silently wrong
shape).  Nothing is executed.

* helpers that did not exist on the pinned tree (``known_symbols.json``) are inlined into
  their callers (private methods via ``self.x(...)``, module functions, closures) - an
  "extract method" refactor is undone;
* module constants that did not exist on the pinned tree and hold a literal / tuple of
  names are propagated into their uses ("hoist constant" is undone);
* ``t = a if c else b`` / ``return a if c else b`` become ``if`` statements;
* ``x = x <op> y`` becomes ``x <op>= y``;
* ``isinstance(x, A) or isinstance(x, B)`` becomes ``isinstance(x, (A, B))``;
* keywords that merely name the next positional parameter of a few library functions
  (``asyncio.wait_for(f, timeout=t)``) become positional.
"""
from __future__ import annotations

import ast
import copy
import json
from pathlib import Path
from typing import Dict, List, Optional, Set, Tuple

KNOWN_FILE = Path(__file__).resolve().parent / "known_symbols.json"

# callee (dotted, as written) -> names of its leading positional parameters
KW2POS = {
    "asyncio.wait_for": ("fut", "timeout"),
    "trio.fail_after": ("seconds",),
    "trio.move_on_after": ("seconds",),
    "asyncio.sleep": ("delay",),
    "trio.sleep": ("seconds",),
    "partial": ("func",),
    "getattr": ("object", "name", "default"),
}

FuncDef = (ast.FunctionDef, ast.AsyncFunctionDef)


def load_known() -> Dict[str, Dict[str, List[str]]]:
    if KNOWN_FILE.exists():
        return json.loads(KNOWN_FILE.read_text())
    return {}


def symbols_of(tree: ast.Module) -> Dict[str, List[str]]:
    funcs: List[str] = []
    names: List[str] = []

    def walk(node: ast.AST, prefix: str) -> None:
        for child in ast.iter_child_nodes(node):
            if isinstance(child, FuncDef):
                funcs.append(prefix + child.name)
                walk(child, prefix + child.name + ".")
            elif isinstance(child, ast.ClassDef):
                walk(child, prefix + child.name + ".")
            else:
                walk(child, prefix)

    walk(tree, "")
    for stmt in tree.body:
        for t in _targets(stmt):
            names.append(t)
    return {"functions": sorted(set(funcs)), "names": sorted(set(names)), "attrs": class_attrs(tree), "params": func_params(tree), "shapes": func_shapes(tree), "locals": func_locals(tree), "bodies": func_bodies(tree), "classes": sorted(n.name for n in ast.walk(tree) if isinstance(n, ast.ClassDef))}


def _own_nodes(f: ast.AST):
    """Nodes of f's own scope (nested defs / lambdas excluded; comprehensions included)."""
    stack = list(ast.iter_child_nodes(f))
    while stack:
        n = stack.pop()
        yield n
        if isinstance(n, FuncDef + (ast.Lambda, ast.ClassDef)):
            continue
        stack.extend(ast.iter_child_nodes(n))


def _local_order(f: ast.AST) -> List[str]:
    binds = []
    for n in _own_nodes(f):
        if isinstance(n, ast.Name) and isinstance(n.ctx, ast.Store):
            binds.append((getattr(n, "lineno", 0), getattr(n, "col_offset", 0), n.id))
        elif isinstance(n, ast.ExceptHandler) and n.name:
            binds.append((getattr(n, "lineno", 0), 0, n.name))
    out: List[str] = []
    params = {a.arg for a in f.args.posonlyargs + f.args.args + f.args.kwonlyargs}  # type: ignore[attr-defined]
    for _, _, name in sorted(binds):
        if name not in out and name not in params:
            out.append(name)
    return out


def func_locals(tree: ast.Module) -> Dict[str, List[str]]:
    return {q: _local_order(f) for q, f, _ in _walk_defs(tree)}


def undo_local_renames(tree: ast.Module, known_locals: Dict[str, List[str]]) -> List[str]:
    """Locals of a pinned function that were merely renamed get their pinned names back.  The
    two first-binding orders are aligned; a name that was replaced one-for-one by a name unknown
    to the pinned function is renamed (capture-free: the pinned name must be unused)."""
    import difflib

    done: List[str] = []
    for q, f, _ in _walk_defs(tree):
        want = known_locals.get(q)
        if want is None:
            continue
        have = _local_order(f)
        if have == want:
            continue
        mapping: Dict[str, str] = {}
        sm = difflib.SequenceMatcher(a=want, b=have, autojunk=False)
        for tag, i1, i2, j1, j2 in sm.get_opcodes():
            if tag == "replace" and (i2 - i1) == (j2 - j1):
                for w, h in zip(want[i1:i2], have[j1:j2]):
                    if w not in have and h not in want:
                        mapping[h] = w
        if not mapping:
            continue
        used = {n.id for n in ast.walk(f) if isinstance(n, ast.Name)} | {a.arg for n in ast.walk(f) if isinstance(n, FuncDef + (ast.Lambda,)) for a in n.args.args}
        mapping = {h: w for h, w in mapping.items() if w not in used}
        # nested functions that rebind the name keep their own variable: skip such names
        for n in ast.walk(f):
            if isinstance(n, FuncDef + (ast.Lambda,)) and n is not f:
                inner = {x.id for x in ast.walk(n) if isinstance(x, ast.Name) and isinstance(x.ctx, ast.Store)} | {a.arg for a in n.args.args}
                for h in list(mapping):
                    if h in inner and not any(isinstance(x, ast.Nonlocal) and h in x.names for x in ast.walk(n)):
                        mapping.pop(h)
        if not mapping:
            continue
        for n in ast.walk(f):
            if isinstance(n, ast.Name) and n.id in mapping:
                n.id = mapping[n.id]
            elif isinstance(n, ast.ExceptHandler) and n.name in mapping:
                n.name = mapping[n.name]
            elif isinstance(n, (ast.Nonlocal, ast.Global)):
                n.names = [mapping.get(x, x) for x in n.names]
        done.append(f"{q}({', '.join(f'{h}->{w}' for h, w in mapping.items())})")
    return done


def _walk_defs(tree: ast.AST, prefix: str = ""):
    for child in ast.iter_child_nodes(tree):
        if isinstance(child, FuncDef):
            yield prefix + child.name, child, tree
            yield from _walk_defs(child, prefix + child.name + ".")
        elif isinstance(child, ast.ClassDef):
            yield from _walk_defs(child, prefix + child.name + ".")
        else:
            yield from _walk_defs(child, prefix)


def func_params(tree: ast.Module) -> Dict[str, List[str]]:
    return {q: [a.arg for a in f.args.posonlyargs + f.args.args + f.args.kwonlyargs] for q, f, _ in _walk_defs(tree)}


def _stmt_texts(f: ast.AST, name: str) -> List[str]:
    """Texts of the simple statements of f with its own name and its parameter names masked
    (Name nodes only - keyword names at call sites are not the parameters)."""
    params = [a.arg for a in f.args.posonlyargs + f.args.args + f.args.kwonlyargs]  # type: ignore[attr-defined]
    pmap = {p_: f"P{i}" for i, p_ in enumerate(params) if p_ != "self"}
    out = []
    for st in ast.walk(f):
        if isinstance(st, ast.stmt) and st is not f and not isinstance(st, (ast.If, ast.For, ast.While, ast.Try, ast.With, ast.AsyncWith, ast.AsyncFor)):
            c = copy.deepcopy(st)
            for n in ast.walk(c):
                if isinstance(n, ast.Name) and n.id in pmap:
                    n.id = pmap[n.id]
                elif isinstance(n, ast.Name) and n.id == name:
                    n.id = "SELFNAME"
                elif isinstance(n, ast.Attribute) and n.attr == name:
                    n.attr = "SELFNAME"
            out.append(ast.unparse(c))
    return out


def func_shapes(tree: ast.Module) -> Dict[str, List[str]]:
    """Per function: the texts of its simple statements (own name masked) - used only to recognise
    a renamed function by the similarity of its body."""
    return {q: _stmt_texts(f, f.name) for q, f, _ in _walk_defs(tree)}


def class_attrs(tree: ast.Module) -> Dict[str, Dict[str, str]]:
    """class -> {attribute: normalised initial value} for `self.x = ...` in __init__."""
    out: Dict[str, Dict[str, str]] = {}
    for cls in [n for n in ast.walk(tree) if isinstance(n, ast.ClassDef)]:
        init = [m for m in cls.body if isinstance(m, FuncDef) and m.name == "__init__"]
        if not init:
            continue
        attrs: Dict[str, str] = {}
        for n in ast.walk(init[0]):
            tgt = None
            if isinstance(n, ast.Assign) and len(n.targets) == 1:
                tgt, val = n.targets[0], n.value
            elif isinstance(n, ast.AnnAssign) and n.value is not None:
                tgt, val = n.target, n.value
            if tgt is not None and isinstance(tgt, ast.Attribute) and isinstance(tgt.value, ast.Name) and tgt.value.id == "self":
                attrs.setdefault(tgt.attr, ast.unparse(val))
        out[cls.name] = attrs
    return out


def func_bodies(tree: ast.Module) -> Dict[str, Dict[str, object]]:
    """Top-level statement texts of parameterless helpers (methods taking only self, functions
    taking nothing) that return no value - enough to recognise such a helper after it was inlined."""
    out: Dict[str, Dict[str, object]] = {}
    for q, f, parent in _walk_defs(tree):
        params = [a.arg for a in f.args.posonlyargs + f.args.args + f.args.kwonlyargs]
        is_method = isinstance(parent, ast.ClassDef)
        if (is_method and params[:1] != ["self"]) or f.args.vararg or f.args.kwarg or f.decorator_list or f.args.defaults or f.args.kwonlyargs:
            continue
        if any(isinstance(n, ast.Return) and n.value is not None for n in ast.walk(f)) or _has_yield(f):
            continue
        body = [b for b in f.body if not (isinstance(b, ast.Expr) and isinstance(b.value, ast.Constant) and isinstance(b.value.value, str))]
        if not body or any(isinstance(n, ast.Return) for b in body for n in ast.walk(b)):
            continue
        out[q] = {"async": isinstance(f, ast.AsyncFunctionDef), "stmts": [ast.unparse(b) for b in body], "params": [p_ for p_ in params if p_ != "self"]}
    return out


def reextract_inlined(tree: ast.Module, known: Dict[str, object]) -> List[str]:
    """A pinned parameterless helper that vanished while its statements appear verbatim, in order,
    inside another function of the same class / module was inlined there: put it back (the block
    becomes a call again), so the rules anchored in the helper still find it."""
    done: List[str] = []
    bodies = known.get("bodies") or {}
    present = {q for q, _, _ in _walk_defs(tree)}
    for q, info in bodies.items():
        if q in present or q.count(".") > 1:
            continue
        scope_name = q.rsplit(".", 1)[0] if "." in q else ""
        name = q.rsplit(".", 1)[-1]
        scope: Optional[ast.AST] = tree if not scope_name else next((n for n in ast.walk(tree) if isinstance(n, ast.ClassDef) and n.name == scope_name), None)
        if scope is None:
            continue
        if any(isinstance(n, ast.Attribute) and n.attr == name for n in ast.walk(tree)) or any(isinstance(n, ast.Name) and n.id == name for n in ast.walk(tree)):
            continue
        want = list(info["stmts"])  # type: ignore[index]
        is_async = bool(info["async"])  # type: ignore[index]
        hparams = list(info.get("params", []))  # type: ignore[union-attr]
        found: List[Tuple[List[ast.stmt], int]] = []

        def scan(stmts: List[ast.stmt], in_async: bool) -> None:
            texts = [ast.unparse(x) for x in stmts]
            for i in range(0, len(stmts) - len(want) + 1):
                if texts[i : i + len(want)] == want and (in_async or not is_async):
                    found.append((stmts, i))
                    break
            for st in stmts:
                if isinstance(st, FuncDef + (ast.ClassDef,)):
                    continue
                for fld in ("body", "orelse", "finalbody"):
                    v = getattr(st, fld, None)
                    if isinstance(v, list) and v and isinstance(v[0], ast.stmt):
                        scan(v, in_async)
                for hd in getattr(st, "handlers", []) or []:
                    scan(hd.body, in_async)

        for m in getattr(scope, "body", []):
            if isinstance(m, FuncDef):
                scan(m.body, isinstance(m, ast.AsyncFunctionDef))
        if not found:
            continue
        block_stmts: List[ast.stmt] = []
        for stmts, i in found:
            block_stmts = stmts[i : i + len(want)]
            callee: ast.expr = ast.Attribute(value=ast.Name(id="self", ctx=ast.Load()), attr=name, ctx=ast.Load()) if scope_name else ast.Name(id=name, ctx=ast.Load())
            call: ast.expr = ast.Call(func=callee, args=[ast.Name(id=p_, ctx=ast.Load()) for p_ in hparams], keywords=[])
            if is_async:
                call = ast.Await(value=call)
            st = ast.Expr(value=call)
            ast.copy_location(st, block_stmts[0])
            ast.fix_missing_locations(st)
            stmts[i : i + len(want)] = [st]
        args = ast.arguments(posonlyargs=[], args=([ast.arg(arg="self")] if scope_name else []) + [ast.arg(arg=p_) for p_ in hparams], kwonlyargs=[], kw_defaults=[], defaults=[])
        cls_ = ast.AsyncFunctionDef if is_async else ast.FunctionDef
        fn = cls_(name=name, args=args, body=[copy.deepcopy(b) for b in block_stmts], decorator_list=[], returns=None, type_comment=None, type_params=[])
        ast.copy_location(fn, block_stmts[0])
        ast.fix_missing_locations(fn)
        scope.body.append(fn)  # type: ignore[attr-defined]
        done.append(q)
    return done


def unhoist_closures(tree: ast.Module, known: Dict[str, object]) -> List[str]:
    """A pinned closure `Cls.m.c` that vanished while the class gained a new method `c` used only
    inside `m` (as `self.c`) was hoisted out of `m`: nest it again."""
    done: List[str] = []
    pinned = set(known.get("functions", []))  # type: ignore[arg-type]
    present = {q for q, _, _ in _walk_defs(tree)}
    for q in sorted(pinned - present):
        parts = q.split(".")
        if len(parts) != 3:
            continue
        cname, mname, fname = parts
        cls = next((n for n in ast.walk(tree) if isinstance(n, ast.ClassDef) and n.name == cname), None)
        if cls is None or f"{cname}.{fname}" in pinned:
            continue
        meth = next((m for m in cls.body if isinstance(m, FuncDef) and m.name == mname), None)
        new = next((m for m in cls.body if isinstance(m, FuncDef) and m.name == fname), None)
        if meth is None or new is None or not new.args.args or new.args.args[0].arg != "self" or new.decorator_list:
            continue
        uses = [n for n in ast.walk(tree) if isinstance(n, ast.Attribute) and n.attr == fname]
        inside = [n for n in ast.walk(meth) if isinstance(n, ast.Attribute) and n.attr == fname]
        if len(uses) != len(inside) or not all(isinstance(n.value, ast.Name) and n.value.id == "self" for n in uses):
            continue
        cls.body.remove(new)
        new.args.args = new.args.args[1:]
        ins = 1 if meth.body and isinstance(meth.body[0], ast.Expr) and isinstance(meth.body[0].value, ast.Constant) and isinstance(meth.body[0].value.value, str) else 0
        meth.body.insert(ins, new)

        class Sub(ast.NodeTransformer):
            def visit_Attribute(self, node: ast.Attribute):  # noqa: N802
                self.generic_visit(node)
                if node.attr == fname and isinstance(node.value, ast.Name) and node.value.id == "self":
                    return ast.copy_location(ast.Name(id=fname, ctx=node.ctx), node)
                return node

        for i, st in enumerate(meth.body):
            if st is not new:
                meth.body[i] = Sub().visit(st)
        done.append(q)
    return done


def unpartial_closures(tree: ast.Module, known: Dict[str, object]) -> List[str]:
    """A pinned closure `...f.c` that vanished while a NEW module-level function `c` appeared whose
    only uses are `partial(c, a1..ak)` (ai plain names / attribute chains) inside `f`: the closure
    was turned into a partial of a module-level function - nest it again with a1..ak substituted."""
    done: List[str] = []
    pinned = set(known.get("functions", []))  # type: ignore[arg-type]
    defs = {q: (fn, parent) for q, fn, parent in _walk_defs(tree)}
    for q in sorted(pinned - set(defs)):
        if "." not in q:
            continue
        outer_q, cname = q.rsplit(".", 1)
        if outer_q not in defs or cname in pinned or cname not in defs:
            continue
        new, parent = defs[cname]
        outer = defs[outer_q][0]
        if parent is not tree or new.decorator_list or new.args.kwonlyargs or new.args.defaults:
            continue
        uses = [n for n in ast.walk(tree) if isinstance(n, ast.Name) and n.id == cname and isinstance(n.ctx, ast.Load)]
        partials = [c for c in ast.walk(outer) if isinstance(c, ast.Call) and _dotted(c.func) in ("partial", "functools.partial") and c.args and isinstance(c.args[0], ast.Name) and c.args[0].id == cname and not c.keywords]
        if not partials or len(uses) != len(partials):
            continue
        bound = [ast.unparse(a) for a in partials[0].args[1:]]
        if any([ast.unparse(a) for a in c.args[1:]] != bound for c in partials) or any(_dotted(a) is None for a in partials[0].args[1:]):
            continue
        k = len(bound)
        if k > len(new.args.args):
            continue
        sub = {p_.arg: a for p_, a in zip(new.args.args[:k], partials[0].args[1:])}
        stored = {n.id for n in ast.walk(new) if isinstance(n, ast.Name) and isinstance(n.ctx, ast.Store)}
        if stored & set(sub):
            continue
        closure = copy.deepcopy(new)
        closure.args.args = closure.args.args[k:]

        class Sub(ast.NodeTransformer):
            def visit_Name(self, node: ast.Name):  # noqa: N802
                if node.id in sub and isinstance(node.ctx, ast.Load):
                    return ast.copy_location(copy.deepcopy(sub[node.id]), node)
                return node

        closure.body = [Sub().visit(b) for b in closure.body]
        tree.body.remove(new)

        class Unp(ast.NodeTransformer):
            def visit_Call(self, node: ast.Call):  # noqa: N802
                self.generic_visit(node)
                if any(node is c for c in partials):
                    return ast.copy_location(ast.Name(id=cname, ctx=ast.Load()), node)
                return node

        first = min((getattr(c, "lineno", 0) for c in partials))
        # insert the closure before the first statement of `outer` that uses it
        idx = 0
        for i, st in enumerate(outer.body):
            if any(any(x is c for c in partials) for x in ast.walk(st)):
                idx = i
                break
        outer.body = [Unp().visit(b) for b in outer.body]
        ast.copy_location(closure, outer.body[idx])
        outer.body.insert(idx, closure)
        ast.fix_missing_locations(outer)
        done.append(q)
    return done


def undo_func_renames(tree: ast.Module, known: Dict[str, List[str]]) -> List[str]:
    """A pinned function/method that vanished while a new one with (nearly) the same body appeared
    in the same scope is the same function under a new name: rename it (and its uses) back."""
    done: List[str] = []
    shapes = known.get("shapes") or {}
    defs = list(_walk_defs(tree))
    present = {q for q, _, _ in defs}
    missing = [q for q in known.get("functions", []) if q not in present]
    new = [(q, f, parent) for q, f, parent in defs if q not in set(known.get("functions", []))]
    for mq in missing:
        scope = mq.rsplit(".", 1)[0] if "." in mq else ""
        mname = mq.rsplit(".", 1)[-1]
        want = shapes.get(mq)
        if not want:
            continue
        best = None
        for q, f, parent in new:
            qscope = q.rsplit(".", 1)[0] if "." in q else ""
            if qscope != scope:
                continue
            have = _stmt_texts(f, f.name)
            common = len(set(want) & set(have))
            score = common / max(len(set(want) | set(have)), 1)
            if score >= 0.6 and (best is None or score > best[0]):
                best = (score, q, f)
        if best is None:
            continue
        # the old name must be free
        if any(isinstance(n, ast.Attribute) and n.attr == mname for n in ast.walk(tree)) or any(isinstance(n, ast.Name) and n.id == mname for n in ast.walk(tree)):
            continue
        _, q, f = best
        oldname = f.name
        f.name = mname
        for n in ast.walk(tree):
            if isinstance(n, ast.Attribute) and n.attr == oldname:
                n.attr = mname
            elif isinstance(n, ast.Name) and n.id == oldname and "." not in mq:
                n.id = mname
        new = [x for x in new if x[1] is not f]
        done.append(f"{q}->{mq}")
    return done


def undo_param_renames(tree: ast.Module, known_params: Dict[str, List[str]]) -> List[str]:
    """Parameters of a pinned function that were merely renamed get their pinned names back
    (inside the function, and as keywords at its `self.f(...)` / `f(...)` call sites)."""
    done: List[str] = []
    for q, f, _ in _walk_defs(tree):
        want = known_params.get(q)
        if want is None:
            continue
        args = f.args.posonlyargs + f.args.args + f.args.kwonlyargs
        have = [a.arg for a in args]
        if len(have) != len(want) or have == want:
            continue
        mapping = {h: w for h, w in zip(have, want) if h != w}
        names = {n.id for n in ast.walk(f) if isinstance(n, ast.Name)} | {a.arg for a in args}
        if any(w in names for w in mapping.values()):
            continue  # the pinned name is in use for something else
        if any(isinstance(n, FuncDef + (ast.Lambda,)) and n is not f for n in ast.walk(f)):
            inner = {a.arg for n in ast.walk(f) if isinstance(n, FuncDef + (ast.Lambda,)) and n is not f for a in n.args.args}
            if inner & set(mapping):
                continue
        for a in args:
            a.arg = mapping.get(a.arg, a.arg)
        for n in ast.walk(f):
            if isinstance(n, ast.Name) and n.id in mapping:
                n.id = mapping[n.id]
            elif isinstance(n, (ast.Global, ast.Nonlocal)):
                n.names = [mapping.get(x, x) for x in n.names]
        fname = q.rsplit(".", 1)[-1]
        for n in ast.walk(tree):
            if isinstance(n, ast.Call) and (_dotted(n.func) or "").split(".")[-1] == fname:
                for k in n.keywords:
                    if k.arg in mapping:
                        k.arg = mapping[k.arg]
        done.append(f"{q}({', '.join(f'{h}->{w}' for h, w in mapping.items())})")
    return done


def undo_attr_renames(tree: ast.Module, known_attrs: Dict[str, Dict[str, str]]) -> List[str]:
    """A known private attribute that vanished from a class while exactly one new attribute with
    the same initial value appeared is the same attribute under a new name: rename it back."""
    done: List[str] = []
    now = class_attrs(tree)
    for cls in [n for n in ast.walk(tree) if isinstance(n, ast.ClassDef)]:
        was = known_attrs.get(cls.name)
        cur = now.get(cls.name)
        if not was or cur is None:
            continue
        used = {n.attr for n in ast.walk(tree) if isinstance(n, ast.Attribute)}
        missing = [a for a in was if a not in cur and a not in used]
        new = [a for a in cur if a not in was]
        for a in missing:
            cands = [b for b in new if cur[b] == was[a]]
            if len(cands) == 1 and len([m for m in missing if was[m] == was[a]]) == 1:
                b = cands[0]
                for n in ast.walk(tree):
                    if isinstance(n, ast.Attribute) and n.attr == b:
                        n.attr = a
                new.remove(b)
                done.append(f"{cls.name}.{b}->{a}")
    return done


def _targets(stmt: ast.stmt) -> List[str]:
    out = []
    if isinstance(stmt, ast.Assign):
        for t in stmt.targets:
            if isinstance(t, ast.Name):
                out.append(t.id)
    elif isinstance(stmt, ast.AnnAssign) and isinstance(stmt.target, ast.Name):
        out.append(stmt.target.id)
    return out


def _dotted(node: ast.AST) -> Optional[str]:
    if isinstance(node, ast.Name):
        return node.id
    if isinstance(node, ast.Attribute):
        base = _dotted(node.value)
        return None if base is None else f"{base}.{node.attr}"
    return None


# --------------------------------------------------------------------------- small rewrites


class _Small(ast.NodeTransformer):
    def __init__(self) -> None:
        self.count = 0

    def visit_Assign(self, node: ast.Assign):  # noqa: N802
        self.generic_visit(node)
        if len(node.targets) == 1:
            sp = self._split_tuple(node)
            if sp is not None:
                return sp
        if len(node.targets) == 1 and isinstance(node.value, ast.IfExp):
            return self._ifexp(node, lambda v: ast.Assign(targets=[copy.deepcopy(node.targets[0])], value=v))
        if len(node.targets) == 1 and isinstance(node.value, ast.BinOp) and isinstance(node.targets[0], (ast.Name, ast.Attribute)) and ast.dump(_load(node.targets[0])) == ast.dump(node.value.left):
            self.count += 1
            return ast.copy_location(ast.AugAssign(target=node.targets[0], op=node.value.op, value=node.value.right), node)
        return node

    def _split_tuple(self, node: ast.Assign):
        t, v = node.targets[0], node.value
        if not (isinstance(t, ast.Tuple) and isinstance(v, ast.Tuple) and len(t.elts) == len(v.elts) and all(isinstance(e, ast.Name) for e in t.elts)):
            return None
        names = [e.id for e in t.elts]
        for i, val in enumerate(v.elts):
            used = {x.id for x in ast.walk(val) if isinstance(x, ast.Name)}
            if used & set(names[:i]):
                return None  # a later value reads an earlier target
            if any(isinstance(x, (ast.Await, ast.NamedExpr, ast.Starred)) for x in ast.walk(val)):
                return None
        out = []
        for e, val in zip(t.elts, v.elts):
            a = ast.Assign(targets=[e], value=val)
            ast.copy_location(a, node)
            out.append(a)
        self.count += 1
        return out

    def visit_AnnAssign(self, node: ast.AnnAssign):  # noqa: N802
        self.generic_visit(node)
        if node.value is not None and isinstance(node.value, ast.IfExp) and isinstance(node.target, ast.Name):
            return self._ifexp(node, lambda v: ast.Assign(targets=[copy.deepcopy(node.target)], value=v))
        return node

    def visit_Return(self, node: ast.Return):  # noqa: N802
        self.generic_visit(node)
        if isinstance(node.value, ast.IfExp):
            return self._ifexp(node, lambda v: ast.Return(value=v))
        return node

    def _ifexp(self, node: ast.stmt, mk) -> ast.stmt:
        self.count += 1
        e: ast.IfExp = node.value  # type: ignore[attr-defined]
        a = ast.copy_location(mk(e.body), node)
        b = ast.copy_location(mk(e.orelse), node)
        new = ast.If(test=e.test, body=[a], orelse=[b])
        ast.copy_location(new, node)
        ast.fix_missing_locations(new)
        return new

    def visit_If(self, node: ast.If):  # noqa: N802
        # (1) `if a and (x := e) ...: B` (no else) -> `if a: if (x := e) ...: B`
        t = node.test
        if isinstance(t, ast.BoolOp) and isinstance(t.op, ast.And) and not node.orelse:
            idx = [i for i, v in enumerate(t.values) if any(isinstance(x, ast.NamedExpr) for x in ast.walk(v))]
            if idx and idx[0] > 0:
                k = idx[0]
                outer = t.values[0] if k == 1 else ast.copy_location(ast.BoolOp(op=ast.And(), values=t.values[:k]), t)
                inner_t = t.values[k] if k == len(t.values) - 1 else ast.copy_location(ast.BoolOp(op=ast.And(), values=t.values[k:]), t)
                inner = ast.copy_location(ast.If(test=inner_t, body=node.body, orelse=[]), node)
                node = ast.copy_location(ast.If(test=outer, body=[inner], orelse=[]), node)
                self.count += 1
        self.generic_visit(node)
        # (2) walrus evaluated first and unconditionally in the test -> plain assignment before the if
        hoisted = _hoist_walrus(node.test)
        if hoisted is not None:
            target, value, new_test = hoisted
            self.count += 1
            node.test = new_test
            asg = ast.copy_location(ast.Assign(targets=[ast.Name(id=target, ctx=ast.Store())], value=value), node)
            ast.fix_missing_locations(asg)
            return [asg, node]
        return node

    def visit_UnaryOp(self, node: ast.UnaryOp):  # noqa: N802
        self.generic_visit(node)
        # De Morgan: negations are pushed inward
        if isinstance(node.op, ast.Not) and isinstance(node.operand, ast.BoolOp):
            inner = node.operand
            new_op = ast.Or() if isinstance(inner.op, ast.And) else ast.And()
            self.count += 1
            return ast.copy_location(ast.BoolOp(op=new_op, values=[_negate(v) for v in inner.values]), node)
        if isinstance(node.op, ast.Not) and isinstance(node.operand, ast.Compare) and len(node.operand.ops) == 1 and type(node.operand.ops[0]) in _NEGOP:
            self.count += 1
            return _negate(node.operand)
        if isinstance(node.op, ast.Not) and isinstance(node.operand, ast.UnaryOp) and isinstance(node.operand.op, ast.Not) and False:
            return node.operand.operand
        return node

    def visit_Dict_call(self, node: ast.Call):
        return node

    def _clean_block(self, stmts: List[ast.stmt], is_func_body: bool) -> List[ast.stmt]:
        out = [st for st in stmts if not isinstance(st, ast.Pass)] or stmts[:1]
        if is_func_body and len(out) > 1 and isinstance(out[-1], ast.Return) and (out[-1].value is None or (isinstance(out[-1].value, ast.Constant) and out[-1].value.value is None)):
            out = out[:-1]
        # `t = a` directly followed by `if c: t = b` (no else) -> if c: t = b else: t = a
        res: List[ast.stmt] = []
        i = 0
        while i < len(out):
            a = out[i]
            b = out[i + 1] if i + 1 < len(out) else None
            if (
                isinstance(a, ast.Assign) and len(a.targets) == 1 and isinstance(a.targets[0], ast.Name)
                and isinstance(a.value, (ast.Constant, ast.Name, ast.Attribute))
                and isinstance(b, ast.If) and not b.orelse and len(b.body) == 1
                and isinstance(b.body[0], ast.Assign) and len(b.body[0].targets) == 1 and isinstance(b.body[0].targets[0], ast.Name)
                and b.body[0].targets[0].id == a.targets[0].id
                and not any(isinstance(x, ast.Name) and x.id == a.targets[0].id for x in ast.walk(b.test))
                and not any(isinstance(x, (ast.Await, ast.NamedExpr)) for x in ast.walk(b.test))
                and not any(isinstance(x, ast.Name) and x.id == a.targets[0].id for x in ast.walk(b.body[0].value))
            ):
                b.orelse = [a]
                res.append(b)
                self.count += 1
                i += 2
                continue
            res.append(a)
            i += 1
        return res

    def generic_visit(self, node: ast.AST) -> ast.AST:
        node = super().generic_visit(node)
        for fld in ("body", "orelse", "finalbody"):
            v = getattr(node, fld, None)
            if isinstance(v, list) and v and isinstance(v[0], ast.stmt):
                if fld == "orelse" and all(isinstance(st, ast.Pass) for st in v):
                    setattr(node, fld, [])
                    continue
                setattr(node, fld, self._clean_block(v, isinstance(node, FuncDef) and fld == "body"))
        if isinstance(node, ast.ExceptHandler):
            node.body = self._clean_block(node.body, False)
        return node

    def visit_Match(self, node: ast.Match):  # noqa: N802
        """`match x: case A(): ... case "s": ... case _: ...` -> the if/elif chain it abbreviates
        (class patterns without sub-patterns, value / singleton patterns, or-patterns, guards, wildcard)."""
        self.generic_visit(node)
        subj = node.subject
        if any(isinstance(x, (ast.Call, ast.Await, ast.NamedExpr)) for x in ast.walk(subj)):
            return node

        def test_of(pat: ast.pattern) -> Optional[ast.expr]:
            if isinstance(pat, ast.MatchClass) and not pat.patterns and not pat.kwd_patterns:
                return ast.Call(func=ast.Name(id="isinstance", ctx=ast.Load()), args=[copy.deepcopy(subj), pat.cls], keywords=[])
            if isinstance(pat, ast.MatchValue):
                return ast.Compare(left=copy.deepcopy(subj), ops=[ast.Eq()], comparators=[pat.value])
            if isinstance(pat, ast.MatchSingleton):
                return ast.Compare(left=copy.deepcopy(subj), ops=[ast.Is()], comparators=[ast.Constant(value=pat.value)])
            if isinstance(pat, ast.MatchOr):
                parts = [test_of(p_) for p_ in pat.patterns]
                if any(p_ is None for p_ in parts):
                    return None
                if all(isinstance(p_, ast.MatchClass) for p_ in pat.patterns):
                    return ast.Call(func=ast.Name(id="isinstance", ctx=ast.Load()), args=[copy.deepcopy(subj), ast.Tuple(elts=[p_.cls for p_ in pat.patterns], ctx=ast.Load())], keywords=[])
                return ast.BoolOp(op=ast.Or(), values=parts)
            return None

        arms: List[Tuple[Optional[ast.expr], List[ast.stmt]]] = []
        for case in node.cases:
            pat = case.pattern
            if isinstance(pat, ast.MatchAs) and pat.pattern is None and pat.name is None:
                t: Optional[ast.expr] = None if case.guard is None else case.guard
                arms.append((t, case.body))
                if case.guard is None:
                    break
                continue
            t = test_of(pat)
            if t is None:
                return node
            if case.guard is not None:
                t = ast.BoolOp(op=ast.And(), values=[t, case.guard])
            arms.append((t, case.body))
        if not arms:
            return node
        result: List[ast.stmt] = []
        for t, body in reversed(arms):
            if t is None:
                result = body
            else:
                result = [ast.If(test=t, body=body, orelse=result)]
        for r in result:
            ast.copy_location(r, node)
            ast.fix_missing_locations(r)
        self.count += 1
        return result

    def visit_While(self, node: ast.While):  # noqa: N802
        self.generic_visit(node)
        # `while True: if c: break; BODY` -> `while not c: BODY`
        if isinstance(node.test, ast.Constant) and node.test.value is True and not node.orelse and len(node.body) >= 2:
            first = node.body[0]
            if isinstance(first, ast.If) and not first.orelse and len(first.body) == 1 and isinstance(first.body[0], ast.Break) and not any(isinstance(x, (ast.Await, ast.NamedExpr, ast.Call)) for x in ast.walk(first.test)):
                node.test = _negate(first.test)
                node.body = node.body[1:]
                ast.fix_missing_locations(node)
                self.count += 1
        return node

    def visit_With(self, node: ast.With):  # noqa: N802
        self.generic_visit(node)
        if len(node.items) == 1 and node.items[0].optional_vars is None:
            ce = node.items[0].context_expr
            if isinstance(ce, ast.Call) and _dotted(ce.func) in ("suppress", "contextlib.suppress") and ce.args and not ce.keywords:
                typ = ce.args[0] if len(ce.args) == 1 else ast.Tuple(elts=list(ce.args), ctx=ast.Load())
                h = ast.ExceptHandler(type=typ, name=None, body=[ast.Pass()])
                new = ast.Try(body=node.body, handlers=[h], orelse=[], finalbody=[])
                ast.copy_location(new, node)
                ast.copy_location(h, node)
                ast.fix_missing_locations(new)
                self.count += 1
                return new
        return node

    def _split_handler(self, h: ast.ExceptHandler) -> Optional[List[ast.ExceptHandler]]:
        """`except (A, B) as e:` whose body branches on `isinstance(e, A)` is two handlers."""
        if not (h.name and isinstance(h.type, ast.Tuple) and len(h.type.elts) == 2):
            return None
        texts = [ast.unparse(e) for e in h.type.elts]
        tests = [st for st in h.body if isinstance(st, ast.If) and _is_isinstance(st.test) and isinstance(st.test.args[0], ast.Name) and st.test.args[0].id == h.name]
        if not tests:
            return None
        tested = {ast.unparse(t.test.args[1]) for t in tests}
        if len(tested) != 1 or next(iter(tested)) not in texts:
            return None
        # the name must not be tested in any other way at top level (keep it simple and exact)
        ctext = next(iter(tested))
        first_cls = h.type.elts[texts.index(ctext)]
        other_cls = h.type.elts[1 - texts.index(ctext)]

        def spec(take_body: bool) -> List[ast.stmt]:
            out: List[ast.stmt] = []
            for st in h.body:
                if any(st is t for t in tests):
                    out.extend(copy.deepcopy(st.body if take_body else st.orelse))
                else:
                    out.append(copy.deepcopy(st))
            return out or [ast.Pass()]

        h1 = ast.ExceptHandler(type=first_cls, name=h.name, body=spec(True))
        h2 = ast.ExceptHandler(type=other_cls, name=h.name, body=spec(False))
        for x in (h1, h2):
            ast.copy_location(x, h)
            ast.fix_missing_locations(x)
        self.count += 1
        return [h1, h2]

    def visit_Try(self, node: ast.Try):  # noqa: N802
        self.generic_visit(node)
        new_handlers: List[ast.ExceptHandler] = []
        for h in node.handlers:
            sp = self._split_handler(h)
            new_handlers.extend(sp if sp is not None else [h])
        node.handlers = new_handlers
        # try/except/else whose handlers all leave: the else body may as well follow the try
        if node.orelse and not node.finalbody and node.handlers and all(_leaves_block(h.body) for h in node.handlers):
            tail = node.orelse
            node.orelse = []
            self.count += 1
            return [node] + tail
        return node

    def visit_BoolOp(self, node: ast.BoolOp):  # noqa: N802
        self.generic_visit(node)
        if isinstance(node.op, ast.Or):
            vals: List[ast.expr] = []
            for v in node.values:
                prev = vals[-1] if vals else None
                if _is_isinstance(v) and prev is not None and _is_isinstance(prev) and ast.dump(prev.args[0]) == ast.dump(v.args[0]):  # type: ignore[attr-defined]
                    classes = _class_list(prev.args[1]) + _class_list(v.args[1])  # type: ignore[attr-defined]
                    prev.args[1] = ast.copy_location(ast.Tuple(elts=classes, ctx=ast.Load()), prev.args[1])  # type: ignore[attr-defined]
                    self.count += 1
                else:
                    vals.append(v)
            if len(vals) == 1:
                return vals[0]
            node.values = vals
        return node

    def visit_Call(self, node: ast.Call):  # noqa: N802
        self.generic_visit(node)
        name = _dotted(node.func)
        if name == "dict" and not node.args and node.keywords and all(k.arg is not None for k in node.keywords):
            self.count += 1
            return ast.copy_location(ast.Dict(keys=[ast.Constant(value=k.arg) for k in node.keywords], values=[k.value for k in node.keywords]), node)
        params = KW2POS.get(name or "")
        if params and node.keywords and not any(isinstance(a, ast.Starred) for a in node.args):
            while node.keywords and len(node.args) < len(params) and node.keywords[0].arg == params[len(node.args)]:
                node.args.append(node.keywords.pop(0).value)
                self.count += 1
        return node


_NEGOP = {ast.Is: ast.IsNot, ast.IsNot: ast.Is, ast.Eq: ast.NotEq, ast.NotEq: ast.Eq, ast.In: ast.NotIn, ast.NotIn: ast.In}


def _negate(e: ast.expr) -> ast.expr:
    if isinstance(e, ast.UnaryOp) and isinstance(e.op, ast.Not):
        return e.operand
    if isinstance(e, ast.Compare) and len(e.ops) == 1 and type(e.ops[0]) in _NEGOP:
        return ast.copy_location(ast.Compare(left=e.left, ops=[_NEGOP[type(e.ops[0])]()], comparators=e.comparators), e)
    return ast.copy_location(ast.UnaryOp(op=ast.Not(), operand=e), e)


def _leaves_block(body: List[ast.stmt]) -> bool:
    if not body:
        return False
    last = body[-1]
    if isinstance(last, (ast.Return, ast.Raise, ast.Break, ast.Continue)):
        return True
    if isinstance(last, ast.If):
        return bool(last.orelse) and _leaves_block(last.body) and _leaves_block(last.orelse)
    return False


def _hoist_walrus(test: ast.expr):
    """(name, value, test') when `test` evaluates one `(name := value)` first and unconditionally."""

    def first(e: ast.expr):
        # returns a setter to replace the leading NamedExpr of e, or None
        if isinstance(e, ast.NamedExpr) and isinstance(e.target, ast.Name):
            return e, None
        if isinstance(e, ast.Compare):
            r = first(e.left)
            if r is not None:
                return r[0], (r[1] or (lambda new, e=e: setattr(e, "left", new)))
        if isinstance(e, ast.UnaryOp) and isinstance(e.op, ast.Not):
            r = first(e.operand)
            if r is not None:
                return r[0], (r[1] or (lambda new, e=e: setattr(e, "operand", new)))
        if isinstance(e, ast.BoolOp):
            r = first(e.values[0])
            if r is not None:
                return r[0], (r[1] or (lambda new, e=e: e.values.__setitem__(0, new)))
        return None

    if sum(isinstance(x, ast.NamedExpr) for x in ast.walk(test)) != 1:
        return None
    r = first(test)
    if r is None:
        return None
    ne, setter = r
    name = ast.copy_location(ast.Name(id=ne.target.id, ctx=ast.Load()), ne)
    if setter is None:
        return ne.target.id, ne.value, name
    setter(name)
    return ne.target.id, ne.value, test


def _load(t: ast.expr) -> ast.expr:
    c = copy.deepcopy(t)
    for n in ast.walk(c):
        if hasattr(n, "ctx"):
            n.ctx = ast.Load()  # type: ignore[attr-defined]
    return c


def _is_isinstance(v: ast.expr) -> bool:
    return isinstance(v, ast.Call) and isinstance(v.func, ast.Name) and v.func.id == "isinstance" and len(v.args) == 2 and not v.keywords


def _class_list(e: ast.expr) -> List[ast.expr]:
    return list(e.elts) if isinstance(e, ast.Tuple) else [e]


def scalar_replace(tree: ast.Module, pinned_classes: Set[str]) -> List[str]:
    """A local holding an instance of a NEW record-like class (fields with defaults, no methods)
    that is only ever used as `v.field` is the same as one local per field ("scalar replacement of
    aggregates"): `v = C(); v.a = 1; use(v.a)` reads `a = <default>; a = 1; use(a)`."""
    done: List[str] = []
    records: Dict[str, List[Tuple[str, Optional[ast.expr]]]] = {}
    for c in [n for n in tree.body if isinstance(n, ast.ClassDef) and n.name not in pinned_classes]:
        fields: List[Tuple[str, Optional[ast.expr]]] = []
        ok = not c.bases or all(_dotted(b) in ("NamedTuple", "typing.NamedTuple") for b in c.bases) is False and not c.bases
        for st in c.body:
            if isinstance(st, ast.Expr) and isinstance(st.value, ast.Constant):
                continue
            if isinstance(st, ast.AnnAssign) and isinstance(st.target, ast.Name):
                v = st.value
                if isinstance(v, ast.Call) and _dotted(v.func) in ("field", "dataclasses.field"):
                    kw = {k.arg: k.value for k in v.keywords}
                    if "default_factory" in kw:
                        v = ast.Call(func=kw["default_factory"], args=[], keywords=[])
                    elif "default" in kw:
                        v = kw["default"]
                    else:
                        v = None
                fields.append((st.target.id, v))
            elif isinstance(st, ast.Assign) and len(st.targets) == 1 and isinstance(st.targets[0], ast.Name):
                fields.append((st.targets[0].id, st.value))
            else:
                ok = False
        if ok and fields:
            records[c.name] = fields
    if not records:
        return done
    for f in [n for n in ast.walk(tree) if isinstance(n, FuncDef)]:
        for holder in list(ast.walk(f)):
            for fld in ("body", "orelse", "finalbody"):
                stmts = getattr(holder, fld, None)
                if not (isinstance(stmts, list) and stmts and isinstance(stmts[0], ast.stmt)):
                    continue
                for i, st in enumerate(list(stmts)):
                    if not (isinstance(st, (ast.Assign, ast.AnnAssign)) and getattr(st, "value", None) is not None and isinstance(st.value, ast.Call) and isinstance(st.value.func, ast.Name) and st.value.func.id in records):
                        continue
                    tgt = st.targets[0] if isinstance(st, ast.Assign) and len(st.targets) == 1 else getattr(st, "target", None)
                    if not isinstance(tgt, ast.Name):
                        continue
                    v = tgt.id
                    fields = records[st.value.func.id]
                    fnames = [a for a, _ in fields]
                    uses = [n for n in ast.walk(f) if isinstance(n, ast.Name) and n.id == v and n is not tgt]
                    attr_uses = [n for n in ast.walk(f) if isinstance(n, ast.Attribute) and isinstance(n.value, ast.Name) and n.value.id == v]
                    if len(uses) != len(attr_uses) or any(a.attr not in fnames for a in attr_uses):
                        continue
                    other_names = {n.id for n in ast.walk(f) if isinstance(n, ast.Name)} | {a.arg for a in f.args.posonlyargs + f.args.args + f.args.kwonlyargs}
                    if set(fnames) & other_names:
                        continue
                    # constructor arguments
                    init: Dict[str, ast.expr] = {}
                    if len(st.value.args) > len(fields) or any(k.arg not in fnames for k in st.value.keywords):
                        continue
                    for (a, _), val in zip(fields, st.value.args):
                        init[a] = val
                    for k in st.value.keywords:
                        init[k.arg] = k.value
                    if any(a not in init and d is None for a, d in fields):
                        continue
                    new_stmts: List[ast.stmt] = []
                    for a, d in fields:
                        asg = ast.Assign(targets=[ast.Name(id=a, ctx=ast.Store())], value=copy.deepcopy(init.get(a, d)))
                        ast.copy_location(asg, st)
                        new_stmts.append(asg)
                    stmts[stmts.index(st) : stmts.index(st) + 1] = new_stmts

                    class Sub(ast.NodeTransformer):
                        def visit_Attribute(self, node: ast.Attribute):  # noqa: N802
                            self.generic_visit(node)
                            if isinstance(node.value, ast.Name) and node.value.id == v and node.attr in fnames:
                                return ast.copy_location(ast.Name(id=node.attr, ctx=node.ctx), node)
                            return node

                    f.body = [Sub().visit(b) for b in f.body]
                    # closures that now store to a field need it declared nonlocal
                    for inner in [n for n in ast.walk(f) if isinstance(n, FuncDef) and n is not f]:
                        stored = sorted({n.id for n in ast.walk(inner) if isinstance(n, ast.Name) and isinstance(n.ctx, ast.Store) and n.id in fnames})
                        if stored:
                            nl = ast.Nonlocal(names=stored)
                            ast.copy_location(nl, inner.body[0])
                            inner.body.insert(0, nl)
                    ast.fix_missing_locations(f)
                    done.append(f"{f.name}.{v}:{st.value.func.id}")
    return done


def inline_single_use_temps(tree: ast.Module) -> int:
    """`t = <expr>` immediately followed by the only statement that reads `t` (once) is the same as
    writing <expr> in place (no await in <expr>; the reader is a simple statement or an `if` test,
    never a loop header).  Undoes "introduce explaining variable" and makes both spellings equal."""
    count = 0
    for f in [n for n in ast.walk(tree) if isinstance(n, FuncDef)]:
        params = {a.arg for a in f.args.posonlyargs + f.args.args + f.args.kwonlyargs}
        if f.args.vararg:
            params.add(f.args.vararg.arg)
        if f.args.kwarg:
            params.add(f.args.kwarg.arg)
        changed = True
        while changed:
            changed = False
            loads: Dict[str, int] = {}
            stores: Dict[str, int] = {}
            for n in ast.walk(f):
                if isinstance(n, ast.Name):
                    if isinstance(n.ctx, ast.Load):
                        loads[n.id] = loads.get(n.id, 0) + 1
                    else:
                        stores[n.id] = stores.get(n.id, 0) + 1
                elif isinstance(n, (ast.Global, ast.Nonlocal)):
                    for x in n.names:
                        stores[x] = stores.get(x, 0) + 5
            for holder in ast.walk(f):
                for fld in ("body", "orelse", "finalbody"):
                    stmts = getattr(holder, fld, None)
                    if not (isinstance(stmts, list) and stmts and isinstance(stmts[0], ast.stmt)):
                        continue
                    for i in range(len(stmts) - 1):
                        a, b = stmts[i], stmts[i + 1]
                        if not (isinstance(a, ast.Assign) and len(a.targets) == 1 and isinstance(a.targets[0], ast.Name)):
                            continue
                        t = a.targets[0].id
                        if t in params or stores.get(t) != 1 or loads.get(t) != 1:
                            continue
                        if any(isinstance(x, (ast.Await, ast.Yield, ast.YieldFrom, ast.NamedExpr, ast.Lambda)) for x in ast.walk(a.value)):
                            continue
                        if isinstance(a.value, (ast.Constant, ast.ListComp, ast.DictComp, ast.SetComp, ast.GeneratorExp)) or (isinstance(a.value, (ast.List, ast.Dict, ast.Set)) and not (a.value.elts if not isinstance(a.value, ast.Dict) else a.value.keys)):
                            continue  # initial values of accumulators / flags are not temps
                        if isinstance(b, (ast.Expr, ast.Assign, ast.AnnAssign, ast.AugAssign, ast.Return, ast.Raise)):
                            region: List[ast.AST] = [b]
                        elif isinstance(b, ast.If):
                            region = [b.test]
                        else:
                            continue
                        uses = [x for r in region for x in ast.walk(r) if isinstance(x, ast.Name) and x.id == t and isinstance(x.ctx, ast.Load)]
                        if len(uses) != 1:
                            continue
                        if any(isinstance(x, (ast.Lambda, ast.ListComp, ast.SetComp, ast.DictComp, ast.GeneratorExp)) and any(u is uses[0] for u in ast.walk(x)) for r in region for x in ast.walk(r)):
                            continue  # would be re-evaluated per element / later
                        first = [x for r in region for x in (_evaluated_first(r.value) if isinstance(r, (ast.Expr, ast.Assign, ast.AnnAssign, ast.AugAssign, ast.Return)) and getattr(r, "value", None) is not None else _evaluated_first(r.exc) if isinstance(r, ast.Raise) and r.exc is not None else _evaluated_first(r) if isinstance(r, ast.expr) else [])]
                        if not any(x is uses[0] for x in first):
                            continue  # the use is conditional (short-circuit / branch): the value must still be computed here

                        class Sub(ast.NodeTransformer):
                            def visit_Name(self, node: ast.Name):  # noqa: N802
                                if node is uses[0]:
                                    return ast.copy_location(copy.deepcopy(a.value), node)
                                return node

                        if isinstance(b, ast.If):
                            b.test = Sub().visit(b.test)
                        else:
                            stmts[i + 1] = Sub().visit(b)
                        del stmts[i]
                        count += 1
                        changed = True
                        break
                    if changed:
                        break
                if changed:
                    break
    if count:
        ast.fix_missing_locations(tree)
    return count


def expand_final_aliases(tree: ast.Module) -> int:
    """`conn = self.connection` (the attribute is assigned only in __init__, the local bound once,
    at the top level of the method) is a mere alias: its uses read as the attribute chain."""
    count = 0
    for cls in [n for n in ast.walk(tree) if isinstance(n, ast.ClassDef)]:
        assigned_outside_init: Set[str] = set()
        store_count: Dict[str, int] = {}
        for m in cls.body:
            if isinstance(m, FuncDef):
                for n in ast.walk(m):
                    if isinstance(n, ast.Attribute) and isinstance(n.ctx, (ast.Store, ast.Del)) and isinstance(n.value, ast.Name) and n.value.id == "self":
                        par = [x for x in ast.walk(m) if isinstance(x, ast.AnnAssign) and x.target is n and x.value is None]
                        if par:
                            continue  # a bare annotation declares, it does not store
                        store_count[n.attr] = store_count.get(n.attr, 0) + 1
                        if m.name != "__init__":
                            assigned_outside_init.add(n.attr)
        # an attribute stored exactly once in the whole class is as good as final
        assigned_outside_init = {a for a in assigned_outside_init if store_count.get(a, 0) > 1}
        for m in cls.body:
            if not isinstance(m, FuncDef):
                continue
            stores: Dict[str, int] = {}
            for n in ast.walk(m):
                if isinstance(n, ast.Name) and isinstance(n.ctx, (ast.Store, ast.Del)):
                    stores[n.id] = stores.get(n.id, 0) + 1
            params = {a.arg for a in m.args.posonlyargs + m.args.args + m.args.kwonlyargs}
            aliases: Dict[str, ast.expr] = {}
            in_loop = {id(x) for lp in ast.walk(m) if isinstance(lp, (ast.For, ast.AsyncFor, ast.While)) for x in ast.walk(lp)}
            for st in ast.walk(m):
                if isinstance(st, ast.Assign) and len(st.targets) == 1 and isinstance(st.targets[0], ast.Name) and id(st) not in in_loop:
                    name = st.targets[0].id
                    v = st.value
                    d = _dotted(v)
                    if d is None and isinstance(v, ast.Subscript) and (isinstance(v.slice, ast.Constant) or (isinstance(v.slice, ast.Name) and v.slice.id in params and stores.get(v.slice.id, 0) == 0)):
                        d = _dotted(v.value)  # self.table[key] with a parameter / constant key
                    if d and d.startswith("self.") and stores.get(name) == 1 and name not in params and d.split(".")[1] not in assigned_outside_init:
                        # every read of the alias comes after its definition
                        first_use = min([getattr(n, "lineno", 0) for n in ast.walk(m) if isinstance(n, ast.Name) and n.id == name and isinstance(n.ctx, ast.Load)] or [0])
                        if first_use >= getattr(st, "lineno", 0):
                            aliases[name] = st.value
            if not aliases:
                continue
            if any(isinstance(n, FuncDef + (ast.Lambda,)) and n is not m for n in ast.walk(m)):
                continue

            class Sub(ast.NodeTransformer):
                def visit_Name(self, node: ast.Name):  # noqa: N802
                    nonlocal count
                    if isinstance(node.ctx, ast.Load) and node.id in aliases:
                        count += 1
                        return ast.copy_location(copy.deepcopy(aliases[node.id]), node)
                    return node

            m.body = [Sub().visit(st) for st in m.body]
            _drop_dead_alias_defs(m, set(aliases))
    if count:
        ast.fix_missing_locations(tree)
    return count


def global_signatures(known: Dict[str, Dict[str, object]]) -> Dict[str, List[str]]:
    """name -> positional parameter names, for functions / methods / classes (their __init__) whose
    simple name is defined exactly once in the pinned repository."""
    seen: Dict[str, List[List[str]]] = {}
    for mod, k in known.items():
        for q, params in (k.get("params") or {}).items():  # type: ignore[union-attr]
            parts = q.split(".")
            name = parts[-1]
            if name == "__init__" and len(parts) >= 2:
                name = parts[-2]
            elif name.startswith("__"):
                continue
            ps = [p_ for p_ in params if p_ not in ("self", "cls")]
            seen.setdefault(name, []).append(ps)
    return {n: v[0] for n, v in seen.items() if len(v) == 1}


def keywords_to_positional(tree: ast.Module, sigs: Dict[str, List[str]]) -> int:
    """`f(a, kw=b)` where `kw` names the next positional parameter of the (uniquely named) repository
    callable is `f(a, b)`."""
    count = 0
    for c in [n for n in ast.walk(tree) if isinstance(n, ast.Call)]:
        if not c.keywords or any(isinstance(a, ast.Starred) for a in c.args) or any(k.arg is None for k in c.keywords):
            continue
        name = c.func.attr if isinstance(c.func, ast.Attribute) else c.func.id if isinstance(c.func, ast.Name) else None
        params = sigs.get(name or "")
        if not params:
            continue
        kw = {k.arg: k for k in c.keywords}
        if not set(kw) <= set(params):
            continue
        moved = False
        while len(c.args) < len(params) and params[len(c.args)] in kw:
            k = kw.pop(params[len(c.args)])
            c.args.append(k.value)
            c.keywords.remove(k)
            moved = True
        if moved:
            count += 1
    return count


def propagate_param_reads(tree: ast.Module) -> int:
    """`kind = scope["type"]` (scope a parameter that is never rebound, no store to scope[...] in the
    function, the local bound once) is a name for the read: its uses read as the expression."""
    count = 0
    for f in [n for n in ast.walk(tree) if isinstance(n, FuncDef)]:
        params = {a.arg for a in f.args.posonlyargs + f.args.args + f.args.kwonlyargs} - {"self", "cls"}
        stores: Dict[str, int] = {}
        for n in ast.walk(f):
            if isinstance(n, ast.Name) and isinstance(n.ctx, (ast.Store, ast.Del)):
                stores[n.id] = stores.get(n.id, 0) + 1
        mutated = {n.value.id for n in ast.walk(f) if isinstance(n, (ast.Subscript, ast.Attribute)) and isinstance(n.ctx, (ast.Store, ast.Del)) and isinstance(n.value, ast.Name)}
        in_loop = {id(x) for lp in ast.walk(f) if isinstance(lp, (ast.For, ast.AsyncFor, ast.While)) for x in ast.walk(lp)}
        aliases: Dict[str, ast.expr] = {}
        for st in ast.walk(f):
            if isinstance(st, ast.Assign) and len(st.targets) == 1 and isinstance(st.targets[0], ast.Name) and id(st) not in in_loop:
                t = st.targets[0].id
                v = st.value
                root = v
                ok = True
                while isinstance(root, (ast.Subscript, ast.Attribute)):
                    if isinstance(root, ast.Subscript) and not isinstance(root.slice, ast.Constant):
                        ok = False
                    root = root.value
                if not ok or v is root or not isinstance(root, ast.Name):
                    continue
                if root.id in params and stores.get(root.id, 0) == 0 and root.id not in mutated and stores.get(t) == 1 and t not in params:
                    aliases[t] = v
        if not aliases or any(isinstance(n, FuncDef + (ast.Lambda,)) and n is not f for n in ast.walk(f)):
            continue

        class Sub(ast.NodeTransformer):
            def visit_Name(self, node: ast.Name):  # noqa: N802
                nonlocal count
                if isinstance(node.ctx, ast.Load) and node.id in aliases:
                    count += 1
                    return ast.copy_location(copy.deepcopy(aliases[node.id]), node)
                return node

        f.body = [Sub().visit(st) for st in f.body]
        _drop_dead_alias_defs(f, set(aliases))
    if count:
        ast.fix_missing_locations(tree)
    return count


def _evaluated_first(e: ast.AST) -> List[ast.AST]:
    """Sub-expressions of `e` that are evaluated whenever `e` is (no short-circuit, no branch)."""
    out: List[ast.AST] = [e]
    if isinstance(e, ast.BoolOp):
        out += _evaluated_first(e.values[0])
    elif isinstance(e, ast.Compare):
        out += _evaluated_first(e.left) + _evaluated_first(e.comparators[0])
    elif isinstance(e, ast.IfExp):
        out += _evaluated_first(e.test)
    elif isinstance(e, (ast.Lambda, ast.ListComp, ast.SetComp, ast.DictComp, ast.GeneratorExp)):
        pass
    else:
        for c in ast.iter_child_nodes(e):
            if isinstance(c, ast.expr):
                out += _evaluated_first(c)
            elif isinstance(c, ast.keyword):
                out += _evaluated_first(c.value)
    return out


def _drop_dead_alias_defs(f: ast.AST, names: Set[str]) -> None:
    """Remove `t = <read>` definitions of aliases that no longer have any reader - but only where the
    read (a subscript may raise) is repeated unconditionally by the very next statement, so that it
    still happens at the same point on every path."""
    live = {n.id for n in ast.walk(f) if isinstance(n, ast.Name) and isinstance(n.ctx, ast.Load)}
    dead = names - live
    if not dead:
        return
    for holder in ast.walk(f):
        for fld in ("body", "orelse", "finalbody"):
            stmts = getattr(holder, fld, None)
            if isinstance(stmts, list) and stmts and isinstance(stmts[0], ast.stmt):
                kept = []
                for i, st in enumerate(stmts):
                    if isinstance(st, ast.Assign) and len(st.targets) == 1 and isinstance(st.targets[0], ast.Name) and st.targets[0].id in dead:
                        can_raise = any(isinstance(x, ast.Subscript) for x in ast.walk(st.value))
                        nxt = stmts[i + 1] if i + 1 < len(stmts) else None
                        region = nxt.test if isinstance(nxt, (ast.If, ast.While)) else nxt.value if isinstance(nxt, (ast.Expr, ast.Assign, ast.AnnAssign, ast.AugAssign, ast.Return)) and getattr(nxt, "value", None) is not None else None
                        text = ast.unparse(st.value)
                        if not can_raise or (region is not None and any(ast.unparse(x) == text for x in _evaluated_first(region) if isinstance(x, ast.expr))):
                            continue
                    kept.append(st)
                setattr(holder, fld, kept or [ast.copy_location(ast.Pass(), stmts[0])])


def _has_effect(node: ast.AST, attr_chain: str) -> bool:
    for x in ast.walk(node):
        if isinstance(x, (ast.Call, ast.Await, ast.Yield, ast.YieldFrom)):
            return True
        if isinstance(x, ast.Attribute) and isinstance(x.ctx, (ast.Store, ast.Del)) and (_dotted(x) or "").startswith(attr_chain.split("[")[0]):
            return True
    return False


def propagate_attr_copies(tree: ast.Module) -> int:
    """`t = self.x` read again before anything could have changed `self.x` (no call, await or store
    in between) is `self.x`: forward copy propagation up to and including the first statement with
    an effect (its operands are evaluated before the effect happens)."""
    count = 0
    for f in [n for n in ast.walk(tree) if isinstance(n, FuncDef)]:
        stores: Dict[str, int] = {}
        for n in ast.walk(f):
            if isinstance(n, ast.Name) and isinstance(n.ctx, (ast.Store, ast.Del)):
                stores[n.id] = stores.get(n.id, 0) + 1
        params = {a.arg for a in f.args.posonlyargs + f.args.args + f.args.kwonlyargs}
        for holder in list(ast.walk(f)):
            for fld in ("body", "orelse", "finalbody"):
                stmts = getattr(holder, fld, None)
                if not (isinstance(stmts, list) and stmts and isinstance(stmts[0], ast.stmt)):
                    continue
                i = 0
                while i < len(stmts):
                    a = stmts[i]
                    i += 1
                    if not (isinstance(a, ast.Assign) and len(a.targets) == 1 and isinstance(a.targets[0], ast.Name)):
                        continue
                    t = a.targets[0].id
                    chain = _dotted(a.value)
                    if not chain or not chain.startswith("self.") or stores.get(t) != 1 or t in params:
                        continue
                    total = sum(1 for n in ast.walk(f) if isinstance(n, ast.Name) and n.id == t and isinstance(n.ctx, ast.Load))
                    replaced = 0

                    class Sub(ast.NodeTransformer):
                        def visit_Name(self, node: ast.Name):  # noqa: N802
                            nonlocal replaced
                            if isinstance(node.ctx, ast.Load) and node.id == t:
                                replaced += 1
                                return ast.copy_location(copy.deepcopy(a.value), node)
                            return node

                    def block(seq: List[ast.stmt], start: int) -> bool:
                        """propagate into seq[start:]; returns True when an effect was passed"""
                        for j in range(start, len(seq)):
                            st = seq[j]
                            if isinstance(st, ast.If):
                                st.test = Sub().visit(st.test)
                                if _has_effect(st.test, chain):
                                    return True
                                d1 = block(st.body, 0)
                                d2 = block(st.orelse, 0)
                                if d1 or d2:
                                    return True
                                continue
                            if isinstance(st, (ast.Expr, ast.Assign, ast.AnnAssign, ast.AugAssign, ast.Return, ast.Raise)):
                                seq[j] = Sub().visit(st)
                                if _has_effect(seq[j], chain):
                                    return True
                                continue
                            return True  # loops, try, with: stop
                        return False

                    block(stmts, i)
                    if replaced:
                        count += replaced
                        if replaced == total:
                            stmts.remove(a)
                            i -= 1
    if count:
        ast.fix_missing_locations(tree)
    return count


def inline_branch_aliases(tree: ast.Module) -> int:
    """`if c: f = A else: f = B` followed by the only statement that reads `f` (A, B plain names or
    attribute chains) is `if c: S[A] else: S[B]`."""
    count = 0
    for fn in [n for n in ast.walk(tree) if isinstance(n, FuncDef)]:
        for holder in list(ast.walk(fn)):
            for fld in ("body", "orelse", "finalbody"):
                stmts = getattr(holder, fld, None)
                if not (isinstance(stmts, list) and stmts and isinstance(stmts[0], ast.stmt)):
                    continue
                i = 0
                while i + 1 < len(stmts):
                    a, b = stmts[i], stmts[i + 1]
                    i += 1
                    if not (isinstance(a, ast.If) and len(a.body) == 1 and len(a.orelse) == 1 and all(isinstance(x, ast.Assign) and len(x.targets) == 1 and isinstance(x.targets[0], ast.Name) and _dotted(x.value) is not None for x in (a.body[0], a.orelse[0]))):
                        continue
                    t = a.body[0].targets[0].id
                    if a.orelse[0].targets[0].id != t:
                        continue
                    loads = [n for n in ast.walk(fn) if isinstance(n, ast.Name) and n.id == t and isinstance(n.ctx, ast.Load)]
                    stores_ = [n for n in ast.walk(fn) if isinstance(n, ast.Name) and n.id == t and isinstance(n.ctx, ast.Store)]
                    if len(loads) != 1 or len(stores_) != 2 or not isinstance(b, (ast.Expr, ast.Assign, ast.AnnAssign, ast.Return)):
                        continue
                    if not any(x is loads[0] for x in ast.walk(b)):
                        continue
                    def mk(val: ast.expr) -> ast.stmt:
                        c = copy.deepcopy(b)
                        class Sub(ast.NodeTransformer):
                            def visit_Name(self, node: ast.Name):  # noqa: N802
                                if node.id == t and isinstance(node.ctx, ast.Load):
                                    return ast.copy_location(copy.deepcopy(val), node)
                                return node
                        return Sub().visit(c)
                    a.body = [mk(a.body[0].value)]
                    a.orelse = [mk(a.orelse[0].value)]
                    del stmts[i]
                    count += 1
    if count:
        ast.fix_missing_locations(tree)
    return count


def flag_loops(tree: ast.Module) -> int:
    """`done = False; while not done: BODY; done = <cond>` (the flag read nowhere else, set only as the
    last statement of the body) is `while True: BODY; if <cond>: break`."""
    count = 0
    for f in [n for n in ast.walk(tree) if isinstance(n, FuncDef)]:
        for holder in ast.walk(f):
            for fld in ("body", "orelse", "finalbody"):
                stmts = getattr(holder, fld, None)
                if not (isinstance(stmts, list) and stmts and isinstance(stmts[0], ast.stmt)):
                    continue
                for i in range(len(stmts) - 1):
                    a, w = stmts[i], stmts[i + 1]
                    if not (isinstance(a, ast.Assign) and len(a.targets) == 1 and isinstance(a.targets[0], ast.Name) and isinstance(a.value, ast.Constant) and a.value.value is False):
                        continue
                    flag = a.targets[0].id
                    if not (isinstance(w, ast.While) and not w.orelse and isinstance(w.test, ast.UnaryOp) and isinstance(w.test.op, ast.Not) and isinstance(w.test.operand, ast.Name) and w.test.operand.id == flag and w.body):
                        continue
                    last = w.body[-1]
                    if not (isinstance(last, ast.Assign) and len(last.targets) == 1 and isinstance(last.targets[0], ast.Name) and last.targets[0].id == flag):
                        continue
                    uses = [n for n in ast.walk(f) if isinstance(n, ast.Name) and n.id == flag]
                    if len(uses) != 3 or any(isinstance(x, (ast.Await, ast.NamedExpr)) for x in ast.walk(last.value)):
                        continue
                    brk = ast.If(test=last.value, body=[ast.Break()], orelse=[])
                    ast.copy_location(brk, last)
                    ast.fix_missing_locations(brk)
                    w.body[-1] = brk
                    w.test = ast.copy_location(ast.Constant(value=True), w.test)
                    stmts[i] = ast.copy_location(ast.Pass(), a)
                    count += 1
    return count


# --------------------------------------------------------------------------- constants


def _literal_like(e: ast.expr) -> bool:
    if isinstance(e, ast.Constant):
        return True
    if isinstance(e, (ast.Tuple, ast.List, ast.Set)):
        return all(_literal_like(x) or _dotted(x) is not None for x in e.elts)
    if isinstance(e, ast.Call) and isinstance(e.func, ast.Name) and e.func.id == "frozenset" and len(e.args) == 1 and not e.keywords:
        return _literal_like(e.args[0])
    if isinstance(e, ast.UnaryOp) and isinstance(e.operand, ast.Constant):
        return True
    if isinstance(e, ast.Subscript) and isinstance(e.value, ast.Constant) and isinstance(e.slice, ast.Constant):
        return True
    if isinstance(e, ast.BinOp) and _literal_like(e.left) and _literal_like(e.right):
        return True
    return False


def _assigned_names(func: ast.AST) -> Set[str]:
    out: Set[str] = set()
    for n in ast.walk(func):
        if isinstance(n, ast.Name) and isinstance(n.ctx, (ast.Store, ast.Del)):
            out.add(n.id)
        elif isinstance(n, ast.arg):
            out.add(n.arg)
        elif isinstance(n, (ast.Global, ast.Nonlocal)):
            out.update(n.names)
    return out


def propagate_constants(tree: ast.Module, known_names: Set[str]) -> int:
    cands: Dict[str, ast.expr] = {}
    seen: Dict[str, int] = {}
    for stmt in tree.body:
        for t in _targets(stmt):
            seen[t] = seen.get(t, 0) + 1
            value = getattr(stmt, "value", None)
            if t not in known_names and value is not None and _literal_like(value):
                cands[t] = value
    cands = {k: v for k, v in cands.items() if seen[k] == 1}
    if not cands:
        return 0
    # never re-bound anywhere (global statements, other stores)
    for n in ast.walk(tree):
        if isinstance(n, ast.Global):
            for name in n.names:
                cands.pop(name, None)
    count = 0

    class Sub(ast.NodeTransformer):
        def __init__(self, shadow: Set[str]) -> None:
            self.shadow = shadow

        def visit_Name(self, node: ast.Name):  # noqa: N802
            nonlocal count
            if isinstance(node.ctx, ast.Load) and node.id in cands and node.id not in self.shadow:
                count += 1
                return ast.copy_location(copy.deepcopy(cands[node.id]), node)
            return node

    def walk(node: ast.AST) -> None:
        for child in ast.iter_child_nodes(node):
            if isinstance(child, FuncDef):
                Sub(_assigned_names(child)).visit(child)
            elif isinstance(child, ast.ClassDef):
                walk(child)
            elif isinstance(child, (ast.If, ast.Try)):
                walk(child)

    walk(tree)
    ast.fix_missing_locations(tree)
    return count


# --------------------------------------------------------------------------- inlining


def _returns(func: ast.AST) -> List[ast.Return]:
    out = []

    def walk(n: ast.AST) -> None:
        for c in ast.iter_child_nodes(n):
            if isinstance(c, FuncDef + (ast.Lambda, ast.ClassDef)):
                continue
            if isinstance(c, ast.Return):
                out.append(c)
            walk(c)

    walk(func)
    return out


def _tail_returns(body: List[ast.stmt]) -> Set[int]:
    """ids of Return statements in tail position of a function body."""
    out: Set[int] = set()
    if not body:
        return out
    last = body[-1]
    if isinstance(last, ast.Return):
        out.add(id(last))
    elif isinstance(last, ast.If):
        out |= _tail_returns(last.body) | _tail_returns(last.orelse)
    elif isinstance(last, ast.Try) and not last.finalbody:
        # a return at the end of the try body / else / a handler is the last thing executed
        out |= _tail_returns(last.orelse if last.orelse else last.body)
        for h in last.handlers:
            out |= _tail_returns(h.body)
    elif isinstance(last, (ast.With, ast.AsyncWith)):
        out |= _tail_returns(last.body)
    return out


def _has_yield(func: ast.AST) -> bool:
    for n in ast.walk(func):
        if isinstance(n, (ast.Yield, ast.YieldFrom)):
            return True
    return False


class _Inliner:
    def __init__(self, tree: ast.Module, known_funcs: Set[str]) -> None:
        self.tree = tree
        self.known = known_funcs
        self.count = 0
        self.inlined: List[str] = []

    def run(self) -> None:
        for _ in range(3):
            before = self.count
            self._scope(self.tree, "", None)
            if self.count == before:
                break
        ast.fix_missing_locations(self.tree)

    # scope = module / class / function whose body may hold new helper defs
    def _scope(self, node: ast.AST, prefix: str, cls: Optional[ast.ClassDef]) -> None:
        body = getattr(node, "body", [])
        helpers = [s for s in body if isinstance(s, FuncDef) and (prefix + s.name) not in self.known and self._inlinable(s)]
        for h in helpers:
            kind = "method" if isinstance(node, ast.ClassDef) else "plain"
            if kind == "method" and not (h.args.args and h.args.args[0].arg == "self"):
                continue
            scope_root = node if not isinstance(node, ast.ClassDef) else node
            left = self._inline_all(scope_root, h, kind)
            if left == 0 and not self._referenced(scope_root, h, kind):
                body.remove(h)
                self.inlined.append(prefix + h.name)
        for s in list(body):
            if isinstance(s, ast.ClassDef):
                self._scope(s, prefix + s.name + ".", s)
            elif isinstance(s, FuncDef):
                self._scope(s, prefix + s.name + ".", None)
            elif isinstance(s, (ast.If, ast.Try, ast.With, ast.AsyncWith, ast.For, ast.While)) and isinstance(node, (ast.Module, ast.ClassDef)):
                pass

    def _inlinable(self, f: ast.AST) -> bool:
        a = f.args  # type: ignore[attr-defined]
        if f.decorator_list or a.vararg or a.kwarg or a.posonlyargs or _has_yield(f):  # type: ignore[attr-defined]
            return False
        for n in ast.walk(f):
            if isinstance(n, ast.Call) and _dotted(n.func) in (f.name, f"self.{f.name}"):  # type: ignore[attr-defined]
                return False  # recursive
            if isinstance(n, FuncDef + (ast.Lambda,)) and n is not f:
                # nested scopes are moved verbatim: only safe when nothing has to be substituted
                own = [x.arg for x in a.args if x.arg != "self"] + [x.arg for x in a.kwonlyargs]
                if own:
                    return False
        return True

    def _is_call(self, e: ast.AST, h: ast.AST, kind: str) -> Optional[ast.Call]:
        is_async = isinstance(h, ast.AsyncFunctionDef)
        if is_async:
            if not isinstance(e, ast.Await):
                return None
            e = e.value
        if not isinstance(e, ast.Call):
            return None
        want = f"self.{h.name}" if kind == "method" else h.name  # type: ignore[attr-defined]
        if _dotted(e.func) != want:
            return None
        if any(isinstance(a, ast.Starred) for a in e.args) or any(k.arg is None for k in e.keywords):
            return None
        return e

    def _referenced(self, root: ast.AST, h: ast.AST, kind: str) -> bool:
        want = f"self.{h.name}" if kind == "method" else h.name  # type: ignore[attr-defined]
        for n in ast.walk(root):
            if n is h:
                continue
            if isinstance(n, (ast.Name, ast.Attribute)) and _dotted(n) == want and not any(n is x for x in ast.walk(h)):
                return True
        return False

    def _inline_all(self, root: ast.AST, h: ast.AST, kind: str) -> int:
        """Inline every supported call statement of h under root; returns the number left."""
        left = 0

        def block(stmts: List[ast.stmt], owner: ast.AST) -> None:
            nonlocal left
            i = 0
            while i < len(stmts):
                s = stmts[i]
                if s is h:
                    i += 1
                    continue
                rep = self._try_stmt(s, h, kind, owner, stmts[i + 1] if i + 1 < len(stmts) else None)
                if rep is not None:
                    _renumber(rep, getattr(s, "lineno", 0))
                    stmts[i : i + 1] = rep
                    self.count += 1
                    i += len(rep)
                    continue
                for fld in ("body", "orelse", "finalbody"):
                    v = getattr(s, fld, None)
                    if isinstance(v, list) and v and isinstance(v[0], ast.stmt):
                        block(v, s if isinstance(s, FuncDef) else owner)
                for hd in getattr(s, "handlers", []) or []:
                    block(hd.body, owner)
                for case in getattr(s, "cases", []) or []:
                    block(case.body, owner)
                i += 1

        block(getattr(root, "body", []), root)
        # anything left?
        want = f"self.{h.name}" if kind == "method" else h.name  # type: ignore[attr-defined]
        for n in ast.walk(root):
            if isinstance(n, ast.Call) and _dotted(n.func) == want and not any(n is x for x in ast.walk(h)):
                left += 1
        return left

    def _try_stmt(self, s: ast.stmt, h: ast.AST, kind: str, owner: ast.AST, nxt: Optional[ast.stmt] = None) -> Optional[List[ast.stmt]]:
        rets = _returns(h)
        tails = _tail_returns(h.body)  # type: ignore[attr-defined]
        if isinstance(s, ast.Expr):
            call = self._is_call(s.value, h, kind)
            if call is None:
                return None
            # value discarded: only bare returns in tail position are allowed
            if any(id(r) not in tails or not (r.value is None or (isinstance(r.value, ast.Constant) and r.value.value is None)) for r in rets):
                return None
            body = self._body(h, call, kind, owner)
            if body is None:
                return None
            return _replace_returns(body, lambda r: None) or [ast.copy_location(ast.Pass(), s)]
        if isinstance(s, ast.If) and not s.orelse and s.body and isinstance(s.body[-1], (ast.Break, ast.Continue, ast.Return, ast.Raise)):
            # `if not helper(...): <jump>` where the helper only returns True / False ("extract with early exit")
            t = s.test
            neg = isinstance(t, ast.UnaryOp) and isinstance(t.op, ast.Not)
            call = self._is_call(t.operand if neg else t, h, kind)
            if call is None:
                return None
            if not rets or any(not (isinstance(r.value, ast.Constant) and isinstance(r.value.value, bool)) for r in rets):
                return None
            jump_on = not neg  # the helper's return value that triggers the jump
            if any(id(r) not in tails for r in rets if r.value.value is not jump_on):
                return None
            if not _always_leaves(h.body):  # type: ignore[attr-defined]
                return None
            jump_pos = {(getattr(r, "lineno", 0), getattr(r, "col_offset", 0)) for r in rets if r.value.value is jump_on}
            body = self._body(h, call, kind, owner)
            if body is None:
                return None

            def expand(stmts: List[ast.stmt]) -> List[ast.stmt]:
                out: List[ast.stmt] = []
                for st in stmts:
                    if isinstance(st, ast.Return):
                        if (getattr(st, "lineno", 0), getattr(st, "col_offset", 0)) in jump_pos:
                            out.extend(copy.deepcopy(s.body))
                        continue
                    for fld in ("body", "orelse", "finalbody"):
                        v = getattr(st, fld, None)
                        if isinstance(v, list) and v and isinstance(v[0], ast.stmt) and not isinstance(st, FuncDef + (ast.ClassDef,)):
                            nv = expand(v)
                            setattr(st, fld, nv if (nv or fld != "body") else [ast.copy_location(ast.Pass(), st)])
                    for hd in getattr(st, "handlers", []) or []:
                        hd.body = expand(hd.body) or [ast.copy_location(ast.Pass(), hd)]
                    out.append(st)
                return out

            return expand(body) or [ast.copy_location(ast.Pass(), s)]
        if isinstance(s, ast.Return) and s.value is not None:
            call = self._is_call(s.value, h, kind)
            if call is None:
                return None
            body = self._body(h, call, kind, owner)
            if body is None:
                return None
            if not body or not isinstance(body[-1], (ast.Return, ast.Raise)):
                body.append(ast.copy_location(ast.Return(value=None), s))
            return body
        if isinstance(s, (ast.Assign, ast.AnnAssign)) and getattr(s, "value", None) is not None:
            call = self._is_call(s.value, h, kind)
            if call is None:
                return None
            if isinstance(s, ast.Assign) and len(s.targets) != 1:
                return None
            target = s.targets[0] if isinstance(s, ast.Assign) else s.target
            # "sentinel" extraction: `t = helper(); if t is None: return` - the helper's early
            # `return None`s are the caller's early returns
            sentinel = (
                isinstance(target, ast.Name)
                and isinstance(nxt, ast.If)
                and not nxt.orelse
                and ast.unparse(nxt.test) == f"{target.id} is None"
                and len(nxt.body) == 1
                and isinstance(nxt.body[0], ast.Return)
                and (nxt.body[0].value is None or (isinstance(nxt.body[0].value, ast.Constant) and nxt.body[0].value.value is None))
            )
            non_tail = [r for r in rets if id(r) not in tails]
            if non_tail and not (sentinel and all(r.value is None or (isinstance(r.value, ast.Constant) and r.value.value is None) for r in non_tail)):
                return None
            non_tail_pos = {(getattr(r, "lineno", 0), getattr(r, "col_offset", 0)) for r in non_tail}
            keep = {target.id} if isinstance(target, ast.Name) and not _bound_before(owner, target.id, s) else set()
            body = self._body(h, call, kind, owner, keep)
            if body is None:
                return None
            falls_off = not h.body or not _always_leaves(h.body)  # type: ignore[attr-defined]

            def mk(r: ast.Return) -> Optional[ast.stmt]:
                if (getattr(r, "lineno", 0), getattr(r, "col_offset", 0)) in non_tail_pos:
                    return ast.copy_location(ast.Return(value=None), r)
                v = r.value if r.value is not None else ast.Constant(value=None)
                if isinstance(v, ast.Name) and isinstance(target, ast.Name) and v.id == target.id:
                    return None  # `t = t`
                return ast.copy_location(ast.Assign(targets=[copy.deepcopy(target)], value=v), r)

            out = _replace_returns(body, mk)
            if falls_off:
                out.append(ast.copy_location(ast.Assign(targets=[copy.deepcopy(target)], value=ast.Constant(value=None)), s))
            return out
        return None

    def _body(self, h: ast.AST, call: ast.Call, kind: str, owner: ast.AST, keep: Set[str] = frozenset()) -> Optional[List[ast.stmt]]:  # type: ignore[assignment]
        params = [a.arg for a in h.args.args]  # type: ignore[attr-defined]
        defaults = h.args.defaults  # type: ignore[attr-defined]
        kwonly = [a.arg for a in h.args.kwonlyargs]  # type: ignore[attr-defined]
        if kind == "method":
            params = params[1:]
        bind: Dict[str, ast.expr] = {}
        if len(call.args) > len(params):
            return None
        for p, a in zip(params, call.args):
            bind[p] = a
        for k in call.keywords:
            if k.arg in bind or k.arg not in params + kwonly:
                return None
            bind[k.arg] = k.value
        for i, p in enumerate(params):
            if p not in bind:
                j = i - (len(params) - len(defaults))
                if j < 0:
                    return None
                bind[p] = defaults[j]
        for p, d in zip(kwonly, h.args.kw_defaults):  # type: ignore[attr-defined]
            if p not in bind:
                if d is None:
                    return None
                bind[p] = d
        body = copy.deepcopy(h.body)  # type: ignore[attr-defined]
        # drop docstring / nonlocal
        if body and isinstance(body[0], ast.Expr) and isinstance(body[0].value, ast.Constant) and isinstance(body[0].value.value, str):
            body = body[1:]
        body = [b for b in body if not isinstance(b, ast.Nonlocal)]
        holder = ast.Module(body=body, type_ignores=[])
        stored = {n.id for n in ast.walk(holder) if isinstance(n, ast.Name) and isinstance(n.ctx, (ast.Store, ast.Del))}
        pre: List[ast.stmt] = []
        subst: Dict[str, ast.expr] = {}
        for p, a in bind.items():
            simple = isinstance(a, ast.Constant) or (_dotted(a) is not None)
            free = {n.id for n in ast.walk(a) if isinstance(n, ast.Name)}
            if simple and p not in stored and not (free & stored):
                subst[p] = a
            else:
                pre.append(ast.copy_location(ast.Assign(targets=[ast.Name(id=p, ctx=ast.Store())], value=copy.deepcopy(a)), call))
        # rename helper locals that clash with names of the caller
        owner_names = {n.id for n in ast.walk(owner) if isinstance(n, ast.Name) and not any(n is x for x in ast.walk(h))} if kind != "closure" else set()
        if isinstance(owner, FuncDef):
            owner_names |= {a.arg for a in owner.args.args}
        closure = isinstance(owner, FuncDef) and any(h is x for x in owner.body)
        rename = {} if closure else {n: f"{n}__{h.name.strip('_')}" for n in stored if n in owner_names and n not in bind and n not in keep}  # type: ignore[attr-defined]

        class Sub(ast.NodeTransformer):
            def visit_Name(self, node: ast.Name):  # noqa: N802
                if node.id in subst and isinstance(node.ctx, ast.Load):
                    return ast.copy_location(copy.deepcopy(subst[node.id]), node)
                if node.id in rename:
                    node.id = rename[node.id]
                return node

        holder = Sub().visit(holder)
        return pre + holder.body


def _renumber(stmts: List[ast.stmt], line: float) -> None:
    """Inlined statements take positions inside the line of the call they replace, in source
    order (fractional line numbers): rules that compare positions see them where they execute."""
    i = 0

    def pre(n: ast.AST) -> None:
        nonlocal i
        if hasattr(n, "lineno") or isinstance(n, (ast.stmt, ast.expr, ast.excepthandler)):
            i += 1
            n.lineno = line + i * 1e-4  # type: ignore[attr-defined]
            n.end_lineno = n.lineno  # type: ignore[attr-defined]
            n.col_offset = 0  # type: ignore[attr-defined]
            n.end_col_offset = 0  # type: ignore[attr-defined]
        for c in ast.iter_child_nodes(n):
            pre(c)

    for st in stmts:
        pre(st)


def _bound_before(owner: ast.AST, name: str, stmt: ast.stmt) -> bool:
    """Is `name` bound (or a parameter) in `owner` before `stmt`?"""
    if isinstance(owner, FuncDef) and name in {a.arg for a in owner.args.posonlyargs + owner.args.args + owner.args.kwonlyargs}:
        return True
    line = getattr(stmt, "lineno", 0)
    for n in ast.walk(owner):
        if isinstance(n, ast.Name) and n.id == name and isinstance(n.ctx, ast.Store) and getattr(n, "lineno", 0) < line:
            return True
    return False


def _always_leaves(body: List[ast.stmt]) -> bool:
    if not body:
        return False
    last = body[-1]
    if isinstance(last, (ast.Return, ast.Raise)):
        return True
    if isinstance(last, ast.If):
        return _always_leaves(last.body) and _always_leaves(last.orelse)
    if isinstance(last, ast.Try):
        main = last.orelse if last.orelse else last.body
        return (_always_leaves(main) and all(_always_leaves(hd.body) for hd in last.handlers)) or _always_leaves(last.finalbody)
    if isinstance(last, (ast.With, ast.AsyncWith)):
        return _always_leaves(last.body)
    return False


def _replace_returns(body: List[ast.stmt], mk) -> List[ast.stmt]:
    out: List[ast.stmt] = []
    for s in body:
        if isinstance(s, ast.Return):
            r = mk(s)
            if r is not None:
                out.append(r)
            continue
        for fld in ("body", "orelse", "finalbody"):
            v = getattr(s, fld, None)
            if isinstance(v, list) and v and isinstance(v[0], ast.stmt) and not isinstance(s, FuncDef + (ast.ClassDef,)):
                nv = _replace_returns(v, mk)
                if not nv and fld == "body":
                    nv = [ast.copy_location(ast.Pass(), s)]
                setattr(s, fld, nv)
        for hd in getattr(s, "handlers", []) or []:
            hd.body = _replace_returns(hd.body, mk) or [ast.copy_location(ast.Pass(), hd)]
        out.append(s)
    return out


# --------------------------------------------------------------------------- driver


_SIGS: Dict[int, Dict[str, List[str]]] = {}


def canonicalise(name: str, tree: ast.Module, known: Dict[str, Dict[str, List[str]]]) -> Dict[str, object]:
    stats: Dict[str, object] = {}
    k = known.get(name)
    if id(known) not in _SIGS:
        _SIGS[id(known)] = global_signatures(known)
    if k is not None and "classes" in k:
        sr = scalar_replace(tree, set(k["classes"]))
        if sr:
            stats["records_scalar_replaced"] = sr
    if k is not None and k.get("functions"):
        un = unhoist_closures(tree, k) + unpartial_closures(tree, k)
        if un:
            stats["closures_nested_again"] = un
    if k is not None and k.get("shapes"):
        ren = undo_func_renames(tree, k)
        if ren:
            stats["function_renames_undone"] = ren
    if k is not None and k.get("bodies"):
        rx = reextract_inlined(tree, k)
        if rx:
            stats["inlined_helpers_extracted_again"] = rx
    if k is not None and k.get("params"):
        ren = undo_param_renames(tree, k["params"])
        if ren:
            stats["parameter_renames_undone"] = ren
    if k is not None and k.get("locals"):
        ren = undo_local_renames(tree, k["locals"])
        if ren:
            stats["local_renames_undone"] = ren
    if k is not None and k.get("attrs"):
        ren = undo_attr_renames(tree, k["attrs"])
        if ren:
            stats["attribute_renames_undone"] = ren
    if k is not None:
        inl = _Inliner(tree, set(k["functions"]))
        inl.run()
        if inl.count:
            stats["inlined_calls"] = inl.count
            stats["inlined_helpers"] = inl.inlined
            if k.get("locals"):
                ren2 = undo_local_renames(tree, k["locals"])
                if ren2:
                    stats["local_renames_undone"] = list(stats.get("local_renames_undone", [])) + ren2  # type: ignore[arg-type]
        n = propagate_constants(tree, set(k["names"]))
        if n:
            stats["constants_propagated"] = n
    small = _Small()
    small.visit(tree)
    if k is not None:
        nal = expand_final_aliases(tree)
        if nal:
            stats["final_aliases_expanded"] = nal
    if k is not None:
        nk = keywords_to_positional(tree, _SIGS[id(known)])
        if nk:
            stats["keywords_made_positional"] = nk
        npr = propagate_param_reads(tree)
        if npr:
            stats["parameter_reads_propagated"] = npr
        nac = propagate_attr_copies(tree)
        if nac:
            stats["attribute_copies_propagated"] = nac
        nba = inline_branch_aliases(tree)
        if nba:
            stats["branch_aliases_inlined"] = nba
    nt = inline_single_use_temps(tree)
    if nt:
        stats["single_use_temps_inlined"] = nt
    nfl = flag_loops(tree)
    if nfl:
        stats["flag_loops"] = nfl
    if small.count:
        stats["small_rewrites"] = small.count
    ast.fix_missing_locations(tree)
    return stats
