"""Canonicalising pre-pass: behaviour-preserving rewrites applied to the parsed tree
before any rule looks at it, so that routine refactors do not change what the rules see.

Every rewrite is an equivalence of Python semantics under the stated side conditions;
when a side condition cannot be established the construct is left alone (the rules then
see the refactored shape and may report an anchor problem, never a silently wrong
shape).  Nothing is executed.

* helpers that did not exist on the pinned tree (``known_symbols.json``) are inlined into
  their callers (private methods via ``self.x(...)``, module functions, closures) - an
  "extract method" refactor is undone;
* module constants that did not exist on the pinned tree and hold a literal / tuple of
  names are propagated into their uses ("hoist constant" is undone);
* ``t = a if c else b`` / ``return a if c else b`` become ``if`` statements;
* ``x = x <op> y`` becomes ``x <op>= y``;
* ``isinstance(x, A) or isinstance(x, B)`` becomes ``isinstance(x, (A, B))``;
* keywords that merely name the next positional parameter of a few library functions
  (``asyncio.wait_for(f, timeout=t)``) become positional.
"""
from __future__ import annotations

import ast
import copy
import json
from pathlib import Path
from typing import Dict, List, Optional, Set, Tuple

KNOWN_FILE = Path(__file__).resolve().parent / "known_symbols.json"

# callee (dotted, as written) -> names of its leading positional parameters
KW2POS = {
    "asyncio.wait_for": ("fut", "timeout"),
    "trio.fail_after": ("seconds",),
    "trio.move_on_after": ("seconds",),
    "asyncio.sleep": ("delay",),
    "trio.sleep": ("seconds",),
    "partial": ("func",),
    "getattr": ("object", "name", "default"),
}

FuncDef = (ast.FunctionDef, ast.AsyncFunctionDef)


def load_known() -> Dict[str, Dict[str, List[str]]]:
    if KNOWN_FILE.exists():
        return json.loads(KNOWN_FILE.read_text())
    return {}


def symbols_of(tree: ast.Module) -> Dict[str, List[str]]:
    funcs: List[str] = []
    names: List[str] = []

    def walk(node: ast.AST, prefix: str) -> None:
        for child in ast.iter_child_nodes(node):
            if isinstance(child, FuncDef):
                funcs.append(prefix + child.name)
                walk(child, prefix + child.name + ".")
            elif isinstance(child, ast.ClassDef):
                walk(child, prefix + child.name + ".")
            else:
                walk(child, prefix)

    walk(tree, "")
    for stmt in tree.body:
        for t in _targets(stmt):
            names.append(t)
    return {"functions": sorted(set(funcs)), "names": sorted(set(names)), "attrs": class_attrs(tree)}


def class_attrs(tree: ast.Module) -> Dict[str, Dict[str, str]]:
    """class -> {attribute: normalised initial value} for `self.x = ...` in __init__."""
    out: Dict[str, Dict[str, str]] = {}
    for cls in [n for n in ast.walk(tree) if isinstance(n, ast.ClassDef)]:
        init = [m for m in cls.body if isinstance(m, FuncDef) and m.name == "__init__"]
        if not init:
            continue
        attrs: Dict[str, str] = {}
        for n in ast.walk(init[0]):
            tgt = None
            if isinstance(n, ast.Assign) and len(n.targets) == 1:
                tgt, val = n.targets[0], n.value
            elif isinstance(n, ast.AnnAssign) and n.value is not None:
                tgt, val = n.target, n.value
            if tgt is not None and isinstance(tgt, ast.Attribute) and isinstance(tgt.value, ast.Name) and tgt.value.id == "self":
                attrs.setdefault(tgt.attr, ast.unparse(val))
        out[cls.name] = attrs
    return out


def undo_attr_renames(tree: ast.Module, known_attrs: Dict[str, Dict[str, str]]) -> List[str]:
    """A known private attribute that vanished from a class while exactly one new attribute with
    the same initial value appeared is the same attribute under a new name: rename it back."""
    done: List[str] = []
    now = class_attrs(tree)
    for cls in [n for n in ast.walk(tree) if isinstance(n, ast.ClassDef)]:
        was = known_attrs.get(cls.name)
        cur = now.get(cls.name)
        if not was or cur is None:
            continue
        used = {n.attr for n in ast.walk(tree) if isinstance(n, ast.Attribute)}
        missing = [a for a in was if a not in cur and a not in used]
        new = [a for a in cur if a not in was]
        for a in missing:
            cands = [b for b in new if cur[b] == was[a]]
            if len(cands) == 1 and len([m for m in missing if was[m] == was[a]]) == 1:
                b = cands[0]
                for n in ast.walk(tree):
                    if isinstance(n, ast.Attribute) and n.attr == b:
                        n.attr = a
                new.remove(b)
                done.append(f"{cls.name}.{b}->{a}")
    return done


def _targets(stmt: ast.stmt) -> List[str]:
    out = []
    if isinstance(stmt, ast.Assign):
        for t in stmt.targets:
            if isinstance(t, ast.Name):
                out.append(t.id)
    elif isinstance(stmt, ast.AnnAssign) and isinstance(stmt.target, ast.Name):
        out.append(stmt.target.id)
    return out


def _dotted(node: ast.AST) -> Optional[str]:
    if isinstance(node, ast.Name):
        return node.id
    if isinstance(node, ast.Attribute):
        base = _dotted(node.value)
        return None if base is None else f"{base}.{node.attr}"
    return None


# --------------------------------------------------------------------------- small rewrites


class _Small(ast.NodeTransformer):
    def __init__(self) -> None:
        self.count = 0

    def visit_Assign(self, node: ast.Assign):  # noqa: N802
        self.generic_visit(node)
        if len(node.targets) == 1 and isinstance(node.value, ast.IfExp):
            return self._ifexp(node, lambda v: ast.Assign(targets=[copy.deepcopy(node.targets[0])], value=v))
        if len(node.targets) == 1 and isinstance(node.value, ast.BinOp) and isinstance(node.targets[0], (ast.Name, ast.Attribute)) and ast.dump(_load(node.targets[0])) == ast.dump(node.value.left):
            self.count += 1
            return ast.copy_location(ast.AugAssign(target=node.targets[0], op=node.value.op, value=node.value.right), node)
        return node

    def visit_AnnAssign(self, node: ast.AnnAssign):  # noqa: N802
        self.generic_visit(node)
        if node.value is not None and isinstance(node.value, ast.IfExp) and isinstance(node.target, ast.Name):
            return self._ifexp(node, lambda v: ast.Assign(targets=[copy.deepcopy(node.target)], value=v))
        return node

    def visit_Return(self, node: ast.Return):  # noqa: N802
        self.generic_visit(node)
        if isinstance(node.value, ast.IfExp):
            return self._ifexp(node, lambda v: ast.Return(value=v))
        return node

    def _ifexp(self, node: ast.stmt, mk) -> ast.stmt:
        self.count += 1
        e: ast.IfExp = node.value  # type: ignore[attr-defined]
        a = ast.copy_location(mk(e.body), node)
        b = ast.copy_location(mk(e.orelse), node)
        new = ast.If(test=e.test, body=[a], orelse=[b])
        ast.copy_location(new, node)
        ast.fix_missing_locations(new)
        return new

    def visit_If(self, node: ast.If):  # noqa: N802
        # (1) `if a and (x := e) ...: B` (no else) -> `if a: if (x := e) ...: B`
        t = node.test
        if isinstance(t, ast.BoolOp) and isinstance(t.op, ast.And) and not node.orelse:
            idx = [i for i, v in enumerate(t.values) if any(isinstance(x, ast.NamedExpr) for x in ast.walk(v))]
            if idx and idx[0] > 0:
                k = idx[0]
                outer = t.values[0] if k == 1 else ast.copy_location(ast.BoolOp(op=ast.And(), values=t.values[:k]), t)
                inner_t = t.values[k] if k == len(t.values) - 1 else ast.copy_location(ast.BoolOp(op=ast.And(), values=t.values[k:]), t)
                inner = ast.copy_location(ast.If(test=inner_t, body=node.body, orelse=[]), node)
                node = ast.copy_location(ast.If(test=outer, body=[inner], orelse=[]), node)
                self.count += 1
        self.generic_visit(node)
        # (2) walrus evaluated first and unconditionally in the test -> plain assignment before the if
        hoisted = _hoist_walrus(node.test)
        if hoisted is not None:
            target, value, new_test = hoisted
            self.count += 1
            node.test = new_test
            asg = ast.copy_location(ast.Assign(targets=[ast.Name(id=target, ctx=ast.Store())], value=value), node)
            ast.fix_missing_locations(asg)
            return [asg, node]
        return node

    def visit_BoolOp(self, node: ast.BoolOp):  # noqa: N802
        self.generic_visit(node)
        if isinstance(node.op, ast.Or):
            vals: List[ast.expr] = []
            for v in node.values:
                prev = vals[-1] if vals else None
                if _is_isinstance(v) and prev is not None and _is_isinstance(prev) and ast.dump(prev.args[0]) == ast.dump(v.args[0]):  # type: ignore[attr-defined]
                    classes = _class_list(prev.args[1]) + _class_list(v.args[1])  # type: ignore[attr-defined]
                    prev.args[1] = ast.copy_location(ast.Tuple(elts=classes, ctx=ast.Load()), prev.args[1])  # type: ignore[attr-defined]
                    self.count += 1
                else:
                    vals.append(v)
            if len(vals) == 1:
                return vals[0]
            node.values = vals
        return node

    def visit_Call(self, node: ast.Call):  # noqa: N802
        self.generic_visit(node)
        name = _dotted(node.func)
        params = KW2POS.get(name or "")
        if params and node.keywords and not any(isinstance(a, ast.Starred) for a in node.args):
            while node.keywords and len(node.args) < len(params) and node.keywords[0].arg == params[len(node.args)]:
                node.args.append(node.keywords.pop(0).value)
                self.count += 1
        return node


def _hoist_walrus(test: ast.expr):
    """(name, value, test') when `test` evaluates one `(name := value)` first and unconditionally."""

    def first(e: ast.expr):
        # returns a setter to replace the leading NamedExpr of e, or None
        if isinstance(e, ast.NamedExpr) and isinstance(e.target, ast.Name):
            return e, None
        if isinstance(e, ast.Compare):
            r = first(e.left)
            if r is not None:
                return r[0], (r[1] or (lambda new, e=e: setattr(e, "left", new)))
        if isinstance(e, ast.UnaryOp) and isinstance(e.op, ast.Not):
            r = first(e.operand)
            if r is not None:
                return r[0], (r[1] or (lambda new, e=e: setattr(e, "operand", new)))
        if isinstance(e, ast.BoolOp):
            r = first(e.values[0])
            if r is not None:
                return r[0], (r[1] or (lambda new, e=e: e.values.__setitem__(0, new)))
        return None

    if sum(isinstance(x, ast.NamedExpr) for x in ast.walk(test)) != 1:
        return None
    r = first(test)
    if r is None:
        return None
    ne, setter = r
    name = ast.copy_location(ast.Name(id=ne.target.id, ctx=ast.Load()), ne)
    if setter is None:
        return ne.target.id, ne.value, name
    setter(name)
    return ne.target.id, ne.value, test


def _load(t: ast.expr) -> ast.expr:
    c = copy.deepcopy(t)
    for n in ast.walk(c):
        if hasattr(n, "ctx"):
            n.ctx = ast.Load()  # type: ignore[attr-defined]
    return c


def _is_isinstance(v: ast.expr) -> bool:
    return isinstance(v, ast.Call) and isinstance(v.func, ast.Name) and v.func.id == "isinstance" and len(v.args) == 2 and not v.keywords


def _class_list(e: ast.expr) -> List[ast.expr]:
    return list(e.elts) if isinstance(e, ast.Tuple) else [e]


# --------------------------------------------------------------------------- constants


def _literal_like(e: ast.expr) -> bool:
    if isinstance(e, ast.Constant):
        return True
    if isinstance(e, (ast.Tuple, ast.List, ast.Set)):
        return all(_literal_like(x) or _dotted(x) is not None for x in e.elts)
    if isinstance(e, ast.Call) and isinstance(e.func, ast.Name) and e.func.id == "frozenset" and len(e.args) == 1 and not e.keywords:
        return _literal_like(e.args[0])
    if isinstance(e, ast.UnaryOp) and isinstance(e.operand, ast.Constant):
        return True
    return False


def _assigned_names(func: ast.AST) -> Set[str]:
    out: Set[str] = set()
    for n in ast.walk(func):
        if isinstance(n, ast.Name) and isinstance(n.ctx, (ast.Store, ast.Del)):
            out.add(n.id)
        elif isinstance(n, ast.arg):
            out.add(n.arg)
        elif isinstance(n, (ast.Global, ast.Nonlocal)):
            out.update(n.names)
    return out


def propagate_constants(tree: ast.Module, known_names: Set[str]) -> int:
    cands: Dict[str, ast.expr] = {}
    seen: Dict[str, int] = {}
    for stmt in tree.body:
        for t in _targets(stmt):
            seen[t] = seen.get(t, 0) + 1
            value = getattr(stmt, "value", None)
            if t not in known_names and value is not None and _literal_like(value):
                cands[t] = value
    cands = {k: v for k, v in cands.items() if seen[k] == 1}
    if not cands:
        return 0
    # never re-bound anywhere (global statements, other stores)
    for n in ast.walk(tree):
        if isinstance(n, ast.Global):
            for name in n.names:
                cands.pop(name, None)
    count = 0

    class Sub(ast.NodeTransformer):
        def __init__(self, shadow: Set[str]) -> None:
            self.shadow = shadow

        def visit_Name(self, node: ast.Name):  # noqa: N802
            nonlocal count
            if isinstance(node.ctx, ast.Load) and node.id in cands and node.id not in self.shadow:
                count += 1
                return ast.copy_location(copy.deepcopy(cands[node.id]), node)
            return node

    def walk(node: ast.AST) -> None:
        for child in ast.iter_child_nodes(node):
            if isinstance(child, FuncDef):
                Sub(_assigned_names(child)).visit(child)
            elif isinstance(child, ast.ClassDef):
                walk(child)
            elif isinstance(child, (ast.If, ast.Try)):
                walk(child)

    walk(tree)
    ast.fix_missing_locations(tree)
    return count


# --------------------------------------------------------------------------- inlining


def _returns(func: ast.AST) -> List[ast.Return]:
    out = []

    def walk(n: ast.AST) -> None:
        for c in ast.iter_child_nodes(n):
            if isinstance(c, FuncDef + (ast.Lambda, ast.ClassDef)):
                continue
            if isinstance(c, ast.Return):
                out.append(c)
            walk(c)

    walk(func)
    return out


def _tail_returns(body: List[ast.stmt]) -> Set[int]:
    """ids of Return statements in tail position of a function body."""
    out: Set[int] = set()
    if not body:
        return out
    last = body[-1]
    if isinstance(last, ast.Return):
        out.add(id(last))
    elif isinstance(last, ast.If):
        out |= _tail_returns(last.body) | _tail_returns(last.orelse)
    elif isinstance(last, ast.Try) and not last.finalbody:
        # a return at the end of the try body / else / a handler is the last thing executed
        out |= _tail_returns(last.orelse if last.orelse else last.body)
        for h in last.handlers:
            out |= _tail_returns(h.body)
    elif isinstance(last, (ast.With, ast.AsyncWith)):
        out |= _tail_returns(last.body)
    return out


def _has_yield(func: ast.AST) -> bool:
    for n in ast.walk(func):
        if isinstance(n, (ast.Yield, ast.YieldFrom)):
            return True
    return False


class _Inliner:
    def __init__(self, tree: ast.Module, known_funcs: Set[str]) -> None:
        self.tree = tree
        self.known = known_funcs
        self.count = 0
        self.inlined: List[str] = []

    def run(self) -> None:
        for _ in range(3):
            before = self.count
            self._scope(self.tree, "", None)
            if self.count == before:
                break
        ast.fix_missing_locations(self.tree)

    # scope = module / class / function whose body may hold new helper defs
    def _scope(self, node: ast.AST, prefix: str, cls: Optional[ast.ClassDef]) -> None:
        body = getattr(node, "body", [])
        helpers = [s for s in body if isinstance(s, FuncDef) and (prefix + s.name) not in self.known and self._inlinable(s)]
        for h in helpers:
            kind = "method" if isinstance(node, ast.ClassDef) else "plain"
            if kind == "method" and not (h.args.args and h.args.args[0].arg == "self"):
                continue
            scope_root = node if not isinstance(node, ast.ClassDef) else node
            left = self._inline_all(scope_root, h, kind)
            if left == 0 and not self._referenced(scope_root, h, kind):
                body.remove(h)
                self.inlined.append(prefix + h.name)
        for s in list(body):
            if isinstance(s, ast.ClassDef):
                self._scope(s, prefix + s.name + ".", s)
            elif isinstance(s, FuncDef):
                self._scope(s, prefix + s.name + ".", None)
            elif isinstance(s, (ast.If, ast.Try, ast.With, ast.AsyncWith, ast.For, ast.While)) and isinstance(node, (ast.Module, ast.ClassDef)):
                pass

    def _inlinable(self, f: ast.AST) -> bool:
        a = f.args  # type: ignore[attr-defined]
        if f.decorator_list or a.vararg or a.kwarg or a.posonlyargs or _has_yield(f):  # type: ignore[attr-defined]
            return False
        for n in ast.walk(f):
            if isinstance(n, ast.Call) and _dotted(n.func) in (f.name, f"self.{f.name}"):  # type: ignore[attr-defined]
                return False  # recursive
            if isinstance(n, FuncDef + (ast.Lambda,)) and n is not f:
                return False
        return True

    def _is_call(self, e: ast.AST, h: ast.AST, kind: str) -> Optional[ast.Call]:
        is_async = isinstance(h, ast.AsyncFunctionDef)
        if is_async:
            if not isinstance(e, ast.Await):
                return None
            e = e.value
        if not isinstance(e, ast.Call):
            return None
        want = f"self.{h.name}" if kind == "method" else h.name  # type: ignore[attr-defined]
        if _dotted(e.func) != want:
            return None
        if any(isinstance(a, ast.Starred) for a in e.args) or any(k.arg is None for k in e.keywords):
            return None
        return e

    def _referenced(self, root: ast.AST, h: ast.AST, kind: str) -> bool:
        want = f"self.{h.name}" if kind == "method" else h.name  # type: ignore[attr-defined]
        for n in ast.walk(root):
            if n is h:
                continue
            if isinstance(n, (ast.Name, ast.Attribute)) and _dotted(n) == want and not any(n is x for x in ast.walk(h)):
                return True
        return False

    def _inline_all(self, root: ast.AST, h: ast.AST, kind: str) -> int:
        """Inline every supported call statement of h under root; returns the number left."""
        left = 0

        def block(stmts: List[ast.stmt], owner: ast.AST) -> None:
            nonlocal left
            i = 0
            while i < len(stmts):
                s = stmts[i]
                if s is h:
                    i += 1
                    continue
                rep = self._try_stmt(s, h, kind, owner)
                if rep is not None:
                    _renumber(rep, getattr(s, "lineno", 0))
                    stmts[i : i + 1] = rep
                    self.count += 1
                    i += len(rep)
                    continue
                for fld in ("body", "orelse", "finalbody"):
                    v = getattr(s, fld, None)
                    if isinstance(v, list) and v and isinstance(v[0], ast.stmt):
                        block(v, s if isinstance(s, FuncDef) else owner)
                for hd in getattr(s, "handlers", []) or []:
                    block(hd.body, owner)
                for case in getattr(s, "cases", []) or []:
                    block(case.body, owner)
                i += 1

        block(getattr(root, "body", []), root)
        # anything left?
        want = f"self.{h.name}" if kind == "method" else h.name  # type: ignore[attr-defined]
        for n in ast.walk(root):
            if isinstance(n, ast.Call) and _dotted(n.func) == want and not any(n is x for x in ast.walk(h)):
                left += 1
        return left

    def _try_stmt(self, s: ast.stmt, h: ast.AST, kind: str, owner: ast.AST) -> Optional[List[ast.stmt]]:
        rets = _returns(h)
        tails = _tail_returns(h.body)  # type: ignore[attr-defined]
        if isinstance(s, ast.Expr):
            call = self._is_call(s.value, h, kind)
            if call is None:
                return None
            # value discarded: only bare returns in tail position are allowed
            if any(id(r) not in tails or not (r.value is None or (isinstance(r.value, ast.Constant) and r.value.value is None)) for r in rets):
                return None
            body = self._body(h, call, kind, owner)
            if body is None:
                return None
            return _replace_returns(body, lambda r: None) or [ast.copy_location(ast.Pass(), s)]
        if isinstance(s, ast.Return) and s.value is not None:
            call = self._is_call(s.value, h, kind)
            if call is None:
                return None
            body = self._body(h, call, kind, owner)
            if body is None:
                return None
            if not body or not isinstance(body[-1], (ast.Return, ast.Raise)):
                body.append(ast.copy_location(ast.Return(value=None), s))
            return body
        if isinstance(s, (ast.Assign, ast.AnnAssign)) and getattr(s, "value", None) is not None:
            call = self._is_call(s.value, h, kind)
            if call is None:
                return None
            if isinstance(s, ast.Assign) and len(s.targets) != 1:
                return None
            target = s.targets[0] if isinstance(s, ast.Assign) else s.target
            if any(id(r) not in tails for r in rets):
                return None
            body = self._body(h, call, kind, owner)
            if body is None:
                return None
            falls_off = not h.body or not _always_leaves(h.body)  # type: ignore[attr-defined]

            def mk(r: ast.Return) -> ast.stmt:
                v = r.value if r.value is not None else ast.Constant(value=None)
                return ast.copy_location(ast.Assign(targets=[copy.deepcopy(target)], value=v), r)

            out = _replace_returns(body, mk)
            if falls_off:
                out.append(ast.copy_location(ast.Assign(targets=[copy.deepcopy(target)], value=ast.Constant(value=None)), s))
            return out
        return None

    def _body(self, h: ast.AST, call: ast.Call, kind: str, owner: ast.AST) -> Optional[List[ast.stmt]]:
        params = [a.arg for a in h.args.args]  # type: ignore[attr-defined]
        defaults = h.args.defaults  # type: ignore[attr-defined]
        kwonly = [a.arg for a in h.args.kwonlyargs]  # type: ignore[attr-defined]
        if kind == "method":
            params = params[1:]
        bind: Dict[str, ast.expr] = {}
        if len(call.args) > len(params):
            return None
        for p, a in zip(params, call.args):
            bind[p] = a
        for k in call.keywords:
            if k.arg in bind or k.arg not in params + kwonly:
                return None
            bind[k.arg] = k.value
        for i, p in enumerate(params):
            if p not in bind:
                j = i - (len(params) - len(defaults))
                if j < 0:
                    return None
                bind[p] = defaults[j]
        for p, d in zip(kwonly, h.args.kw_defaults):  # type: ignore[attr-defined]
            if p not in bind:
                if d is None:
                    return None
                bind[p] = d
        body = copy.deepcopy(h.body)  # type: ignore[attr-defined]
        # drop docstring / nonlocal
        if body and isinstance(body[0], ast.Expr) and isinstance(body[0].value, ast.Constant) and isinstance(body[0].value.value, str):
            body = body[1:]
        body = [b for b in body if not isinstance(b, ast.Nonlocal)]
        holder = ast.Module(body=body, type_ignores=[])
        stored = {n.id for n in ast.walk(holder) if isinstance(n, ast.Name) and isinstance(n.ctx, (ast.Store, ast.Del))}
        pre: List[ast.stmt] = []
        subst: Dict[str, ast.expr] = {}
        for p, a in bind.items():
            simple = isinstance(a, ast.Constant) or (_dotted(a) is not None)
            free = {n.id for n in ast.walk(a) if isinstance(n, ast.Name)}
            if simple and p not in stored and not (free & stored):
                subst[p] = a
            else:
                pre.append(ast.copy_location(ast.Assign(targets=[ast.Name(id=p, ctx=ast.Store())], value=copy.deepcopy(a)), call))
        # rename helper locals that clash with names of the caller
        owner_names = {n.id for n in ast.walk(owner) if isinstance(n, ast.Name) and not any(n is x for x in ast.walk(h))} if kind != "closure" else set()
        if isinstance(owner, FuncDef):
            owner_names |= {a.arg for a in owner.args.args}
        closure = isinstance(owner, FuncDef) and any(h is x for x in owner.body)
        rename = {} if closure else {n: f"{n}__{h.name.strip('_')}" for n in stored if n in owner_names and n not in bind}  # type: ignore[attr-defined]

        class Sub(ast.NodeTransformer):
            def visit_Name(self, node: ast.Name):  # noqa: N802
                if node.id in subst and isinstance(node.ctx, ast.Load):
                    return ast.copy_location(copy.deepcopy(subst[node.id]), node)
                if node.id in rename:
                    node.id = rename[node.id]
                return node

        holder = Sub().visit(holder)
        return pre + holder.body


def _renumber(stmts: List[ast.stmt], line: float) -> None:
    """Inlined statements take positions inside the line of the call they replace, in source
    order (fractional line numbers): rules that compare positions see them where they execute."""
    i = 0

    def pre(n: ast.AST) -> None:
        nonlocal i
        if hasattr(n, "lineno") or isinstance(n, (ast.stmt, ast.expr, ast.excepthandler)):
            i += 1
            n.lineno = line + i * 1e-4  # type: ignore[attr-defined]
            n.end_lineno = n.lineno  # type: ignore[attr-defined]
            n.col_offset = 0  # type: ignore[attr-defined]
            n.end_col_offset = 0  # type: ignore[attr-defined]
        for c in ast.iter_child_nodes(n):
            pre(c)

    for st in stmts:
        pre(st)


def _always_leaves(body: List[ast.stmt]) -> bool:
    if not body:
        return False
    last = body[-1]
    if isinstance(last, (ast.Return, ast.Raise)):
        return True
    if isinstance(last, ast.If):
        return _always_leaves(last.body) and _always_leaves(last.orelse)
    if isinstance(last, ast.Try):
        main = last.orelse if last.orelse else last.body
        return (_always_leaves(main) and all(_always_leaves(hd.body) for hd in last.handlers)) or _always_leaves(last.finalbody)
    if isinstance(last, (ast.With, ast.AsyncWith)):
        return _always_leaves(last.body)
    return False


def _replace_returns(body: List[ast.stmt], mk) -> List[ast.stmt]:
    out: List[ast.stmt] = []
    for s in body:
        if isinstance(s, ast.Return):
            r = mk(s)
            if r is not None:
                out.append(r)
            continue
        for fld in ("body", "orelse", "finalbody"):
            v = getattr(s, fld, None)
            if isinstance(v, list) and v and isinstance(v[0], ast.stmt) and not isinstance(s, FuncDef + (ast.ClassDef,)):
                nv = _replace_returns(v, mk)
                if not nv and fld == "body":
                    nv = [ast.copy_location(ast.Pass(), s)]
                setattr(s, fld, nv)
        for hd in getattr(s, "handlers", []) or []:
            hd.body = _replace_returns(hd.body, mk) or [ast.copy_location(ast.Pass(), hd)]
        out.append(s)
    return out


# --------------------------------------------------------------------------- driver


def canonicalise(name: str, tree: ast.Module, known: Dict[str, Dict[str, List[str]]]) -> Dict[str, object]:
    stats: Dict[str, object] = {}
    k = known.get(name)
    if k is not None and k.get("attrs"):
        ren = undo_attr_renames(tree, k["attrs"])
        if ren:
            stats["attribute_renames_undone"] = ren
    if k is not None:
        inl = _Inliner(tree, set(k["functions"]))
        inl.run()
        if inl.count:
            stats["inlined_calls"] = inl.count
            stats["inlined_helpers"] = inl.inlined
        n = propagate_constants(tree, set(k["names"]))
        if n:
            stats["constants_propagated"] = n
    small = _Small()
    small.visit(tree)
    if small.count:
        stats["small_rewrites"] = small.count
    ast.fix_missing_locations(tree)
    return stats
