"""Checker self-test: mutants must fire (naming their property), neutral edits must stay silent.

Every variant is a text edit of one file of a scratch copy of /repo/src (outside /repo and
/verif, removed afterwards); it must still parse.  A variant whose anchor text is no longer
in the tree is skipped.  Results never become a VIOLATION of a property: they are reported
and, in the thorough tier, attached to the evidence file.
"""
from __future__ import annotations

import ast
import json
import os
import re
import shutil
import subprocess
import tempfile
import time
from concurrent.futures import ThreadPoolExecutor
from pathlib import Path
from typing import Dict, List, Optional, Tuple

from .core import REPO, VERIF
from .selftest_corpus import MUTANTS, NEUTRALS

ALL = [f"C{i:02d}" for i in range(1, 21)]


def _apply(tmp: Path, file: str, edits: List[Tuple[str, str]]) -> Optional[str]:
    p = tmp / "src" / "hypercorn" / file
    text = p.read_text()
    for old, new in edits:
        if text.count(old) != 1:
            return f"anchor not unique/present ({text.count(old)}x): {old[:50]!r}"
        text = text.replace(old, new)
    try:
        ast.parse(text)
    except SyntaxError as error:
        return f"variant does not parse: {error}"
    p.write_text(text)
    return None


def _run_variant(v: dict) -> dict:
    tmp = Path(tempfile.mkdtemp(prefix="hcv-self.", dir="/tmp"))
    try:
        (tmp / "src").mkdir()
        shutil.copytree(REPO / "src" / "hypercorn", tmp / "src" / "hypercorn")
        files = v.get("files") or [(v["file"], v["edits"])]
        for file, edits in files:
            err = _apply(tmp, file, edits)
            if err:
                return {"id": v["id"], "kind": v["kind"], "status": "skipped", "why": err}
        props = v.get("run") or (v["expect"] if v["kind"] == "mutant" else ALL)
        fired: Dict[str, List[str]] = {}
        errors: Dict[str, str] = {}
        for prop in props:
            r = subprocess.run([str(VERIF / "check"), prop, "--repo", str(tmp)], capture_output=True, text=True)
            if r.returncode == 1:
                fired[prop] = sorted(set(re.findall(r"^  rule=(\S+)", r.stdout, flags=re.M)))
            elif r.returncode != 0:
                errors[prop] = (r.stdout.strip().splitlines() or ["?"])[-1][:200]
        if v["kind"] == "mutant":
            ok = any(p in fired for p in v["expect"])
            return {"id": v["id"], "kind": "mutant", "status": "fired" if ok else "MISSED", "expect": v["expect"], "fired": fired, "errors": errors}
        ok = not fired and not errors
        return {"id": v["id"], "kind": "neutral", "status": "silent" if ok else "FALSE-ALARM", "fired": fired, "errors": errors}
    finally:
        shutil.rmtree(tmp, ignore_errors=True)


def _run_patch(args: Tuple[Path, str, str]) -> dict:
    """Apply a stored patch (seeded breaking change / behaviour-preserving refactor) to a scratch
    copy and run ONE property's check on it."""
    d, kind, prop = args
    tmp = Path(tempfile.mkdtemp(prefix="hcv-self.", dir="/tmp"))
    try:
        (tmp / "src").mkdir()
        shutil.copytree(REPO / "src" / "hypercorn", tmp / "src" / "hypercorn")
        p = subprocess.run(["git", "apply", "-p1", str(d / "patch.diff")], cwd=tmp, capture_output=True, text=True)
        if p.returncode != 0:
            return {"id": d.name, "kind": kind, "status": "skipped", "why": "patch does not apply"}
        r = subprocess.run([str(VERIF / "check"), prop, "--repo", str(tmp)], capture_output=True, text=True)
        rules = sorted(set(re.findall(r"^  rule=(\S+)", r.stdout, flags=re.M)))
        if kind == "seeded":
            return {"id": d.name, "kind": kind, "status": "fired" if r.returncode == 1 else "MISSED", "rules": rules}
        return {"id": d.name, "kind": kind, "status": "silent" if r.returncode == 0 else "FALSE-ALARM", "rules": rules or [f"exit {r.returncode}"]}
    finally:
        shutil.rmtree(tmp, ignore_errors=True)


def run_corpora(prop: str, jobs: int = 16) -> dict:
    """The property's own seeded changes must fire, every stored refactor must leave it silent."""
    started = time.time()
    work: List[Tuple[Path, str, str]] = []
    sd = VERIF / "seeded"
    if sd.is_dir():
        work += [(d, "seeded", prop) for d in sorted(sd.iterdir()) if d.is_dir() and d.name.startswith(prop + "-") and (d / "patch.diff").exists()]
    nd = VERIF / "neutral"
    if nd.is_dir():
        work += [(d, "neutral", prop) for d in sorted(nd.iterdir()) if d.is_dir() and (d / "patch.diff").exists()]
    with ThreadPoolExecutor(max_workers=max(1, min(jobs, 16))) as ex:
        results = list(ex.map(_run_patch, work))
    seeded = [r for r in results if r["kind"] == "seeded" and r["status"] != "skipped"]
    neutral = [r for r in results if r["kind"] == "neutral" and r["status"] != "skipped"]
    return {
        "seeded_changes_total": len(seeded),
        "seeded_changes_caught": len([r for r in seeded if r["status"] == "fired"]),
        "seeded_changes_missed": [r["id"] for r in seeded if r["status"] == "MISSED"],
        "refactors_total": len(neutral),
        "refactors_silent": len([r for r in neutral if r["status"] == "silent"]),
        "refactor_false_alarms": {r["id"]: r["rules"] for r in neutral if r["status"] == "FALSE-ALARM"},
        "skipped": [r["id"] for r in results if r["status"] == "skipped"],
        "wall_s": round(time.time() - started, 1),
    }


def run_selftest(prop: Optional[str], jobs: int = 16, only: Optional[str] = None, attach_to_evidence: bool = False) -> int:
    started = time.time()
    variants = [dict(m, kind="mutant") for m in MUTANTS] + [dict(n, kind="neutral") for n in NEUTRALS]
    if prop:
        variants = [v for v in variants if (v["kind"] == "mutant" and prop in v["expect"]) or (v["kind"] == "neutral" and (prop in v.get("touches", ALL)))]
        for v in variants:
            if v["kind"] == "neutral":
                v["run"] = [prop]
            else:
                v["run"] = [prop]
                v["expect"] = [prop]
    if only:
        variants = [v for v in variants if only in v["id"]]
    with ThreadPoolExecutor(max_workers=max(1, min(jobs, 16))) as ex:
        results = list(ex.map(_run_variant, variants))
    mutants = [r for r in results if r["kind"] == "mutant"]
    neutrals = [r for r in results if r["kind"] == "neutral"]
    summary = {
        "mutants_total": len([r for r in mutants if r["status"] != "skipped"]),
        "mutants_fired": len([r for r in mutants if r["status"] == "fired"]),
        "mutants_missed": [r["id"] for r in mutants if r["status"] == "MISSED"],
        "neutrals_total": len([r for r in neutrals if r["status"] != "skipped"]),
        "neutrals_silent": len([r for r in neutrals if r["status"] == "silent"]),
        "neutral_false_alarms": {r["id"]: {**r["fired"], **r["errors"]} for r in neutrals if r["status"] == "FALSE-ALARM"},
        "skipped": {r["id"]: r["why"] for r in results if r["status"] == "skipped"},
        "wall_s": round(time.time() - started, 1),
    }
    print("SELFTEST " + json.dumps(summary))
    for r in mutants:
        if r["status"] == "MISSED":
            print(f"SELFTEST-MISSED {r['id']} expected {r['expect']} fired {r['fired']} errors {r['errors']}")
    if attach_to_evidence and prop:
        path = VERIF / "evidence" / f"{prop}.json"
        try:
            corp = run_corpora(prop, jobs)
            print("CORPORA " + json.dumps(corp))
            ev = json.loads(path.read_text())
            ev["coverage"]["selftest"] = summary
            ev["coverage"]["corpora"] = corp
            summary = dict(summary, wall_s=summary["wall_s"] + corp["wall_s"])
            ev["wall_s"] = round(ev.get("wall_s", 0) + summary["wall_s"], 3)
            path.write_text(json.dumps(ev, indent=1) + "\n")
        except Exception as error:  # pragma: no cover
            print(f"SELFTEST-ERROR cannot attach to evidence: {error}")
    return 0
